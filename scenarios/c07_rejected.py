"""C07 Rejected requests leave the account untouched."""
from . import hist
from .hist import history  # noqa: F401  (resolved by the runner)

PROPS = ["C07"]
META = dict(
    module="scenarios.c07_rejected", level="model_checking",
    bounds=dict(quick=hist.BOUNDS_QUICK, thorough=hist.BOUNDS_THOROUGH),
    stubs=hist.BASE_STUBS, assumptions=hist.BASE_ASSUMPTIONS, outside=hist.BASE_OUTSIDE,
    required_covers=["end of history", "an order was accepted", "a request was rejected: place"],
)


def jobs(tier):
    return hist.jobs_for(PROPS, hist.standard_plans(tier)) + extra_jobs(tier)


def extra_jobs(tier):
    # rejections that come from other internal steps: the second of two loans of an auto-borrow order failing with a
    # plain Error (no lending conditions for the quote symbol) - the first loan must be rolled back
    ps = []
    ps.append(dict(plan="loans", depth=2, bp=8, qp=2, lend="margin_base_only", namounts=2, closes=hist.CLOSES,
                   kinds=["limit", "market"], sides=["sell"], auto_borrow=True, auto_repay=True, loan_symbol="BTC",
                   min_fee="5"))
    # an auto-borrow order placed while another open order already holds part of the paying symbol
    ps.append(dict(plan="pair", depth=2, bp=8, qp=2, lend="margin", namounts=1, closes=hist.CLOSES, kinds=["limit"],
                   sides=["buy"], second="compete", second_auto_borrow=True, split=32))
    return hist.jobs_for(PROPS, ps)

"""C16 Signed requests verify against the bytes actually sent.

Every authenticated endpoint of the Binance account clients and of the Bitstamp API client (found by introspection)
is called through the real client code with a recording stub session; `hmac.new` inside the helper modules is
replaced by a recorder.  The "wire" is produced by the very library code aiohttp uses to serialise a request (yarl's
URL query handling in pure python mode, aiohttp.FormData), applied to what the client handed to the session.
String-valued parameters carry a solver-chosen character from the printable ASCII range (which contains Binance's
client order id alphabet [.A-Za-z0-9:/_-]) at a solver-chosen position class; decimals are symbolic.
"""
import datetime
import inspect
import random
import time as _time
import types
from decimal import Decimal
from urllib.parse import urlencode

import aiohttp
import yarl

from basana.external.binance import helpers as bn_helpers
from basana.external.binance.client import APIClient as BnAPIClient, base as bn_base
from basana.external.bitstamp import client as bt_client, helpers as bt_helpers

from symx.run import Job

from .http_stub import StubSession, form_fields, run

META = dict(
    module="scenarios.c16_signing", level="model_checking",
    bounds=dict(
        quick="every public coroutine of SpotAccount / CrossMarginAccount / IsolatedMarginAccount and every "
              "authenticated method of bitstamp.APIClient (introspected); each string-valued argument = 'ab' + c + 'Z9' "
              "with c a solver-chosen printable ASCII character (95 values; solver-chosen which argument carries it); "
              "extra keyword argument with the same kind of value; clock from {1700000000.0004, 1700000000.4995, "
              "1700000000.9996}; two consecutive requests for the nonce clause",
        thorough="adds two special characters per value from [.:/_-@+ %&=?#] (169 pairs)"),
    stubs=["aiohttp.ClientSession -> recording stub (session= parameter)", "hmac.new in binance.helpers and "
           "bitstamp.helpers -> recorder of (key, message); HMAC-SHA256 itself is trusted",
           "the names `time` and `datetime` in the client modules -> proxies whose time()/now()/utcnow() read the scenario "
           "clock", "the request environment (clock reading x local time zone x limiter x PRNG reseeding x live clock that advances "
           "0.7 ms per reading) is one solver choice from 6 combinations "
           "(quick) / 9 combinations covering every value of 3 clocks, {UTC0, JST-9, ART3}, {no limiter, 5 s, 0.25 s}, "
           "{PRNG reseeded, not reseeded} (thorough; the second free character is explored in the first one)", "the clients' optional limiter (tb=) -> None or an object "
           "whose consume() returns 5 s (thorough: also 0.25 s); asyncio.sleep in the client modules advances the scenario clock", "uuid.uuid4 deterministic and distinct", "the application reseeding `random` before each request is part of "
           "the environment choice",
           "wire = yarl.URL(url).update_query(params).raw_query_string and aiohttp.FormData(data)() body"],
    assumptions=["aiohttp serialises `params` through yarl and `data` through FormData exactly as the installed versions "
                 "do (that code is executed, not modelled)", "the character-level claim is for one free ASCII character "
                 "per value (two in the thorough tier)"],
    outside=["bytes on a real TCP socket / header casing (C HTTP writer)", "non-ASCII characters"],
    required_covers=["a signed binance request was checked", "a signed bitstamp request was checked",
                     "a URL-special character was sent", "two nonces were compared"],
)

PRINTABLE = [chr(i) for i in range(32, 127)]
SPECIALS = list(".:/_-@+ %&=?#")
CLOCKS = [1700000000.0004, 1700000000.4995, 1700000000.9996]
# (clock reading, local time zone, limiter wait): the environment of a request, one solver choice (the three dimensions
# are independent of each other and of the argument under test; the full product is the thorough tier's)
# 4th field: the application reseeds the process-wide PRNG before each request (nonces must not repeat because of it)
# 5th field: a live clock - it advances 0.7 ms with every reading, so every reading rounds to another millisecond
ENVS = [(0, "UTC0", None, False, False), (1, "UTC0", None, True, False), (2, "ART3", None, False, False),
        (0, "UTC0", 5.0, False, False), (1, "ART3", 5.0, True, False), (0, "UTC0", None, False, True)]
# thorough: every zone, every limiter wait and both PRNG behaviours occur (pairwise, not the full product of 54)
ENVS_THOROUGH = ENVS + [(2, "JST-9", None, False, False), (0, "JST-9", 0.25, True, True), (1, "UTC0", 0.25, False, False),
                        (2, "ART3", 0.25, True, False)]
EXTRA_DECIMALS = ["12.50", "1E-8", "3.1E+4"]      # extra keyword arguments may be decimals of any exponent


class _HmacRecorder:
    def __init__(self):
        self.calls = []

    def new(self, key, msg=None, digestmod=None):
        rec = dict(key=key, msg=msg)
        self.calls.append(rec)
        n = len(self.calls)
        return types.SimpleNamespace(hexdigest=lambda: "sig%04d" % n)


def _args_for(fn, strings, decimal, extra):
    """keyword arguments for a client coroutine from its signature; `strings` yields the string under test"""
    sig = inspect.signature(fn)
    kw = {}
    for name, p in sig.parameters.items():
        if name == "self" or p.kind == p.VAR_KEYWORD:
            continue
        ann = str(p.annotation)
        if name in ("order_id", "order_list_id", "id"):
            kw[name] = None if ("client_order_id" in " ".join(sig.parameters) or
                                "client_order_list_id" in sig.parameters) else 12345
        elif name in ("symbol", "currency_pair"):
            kw[name] = "BTCUSDT" if name == "symbol" else "btcusd"
        elif name == "asset" or name == "currency":
            kw[name] = "BTC" if name == "asset" else "btc"
        elif name == "side":
            kw[name] = "BUY"
        elif name == "action":
            kw[name] = "sell"
        elif name == "type":
            kw[name] = "LIMIT"
        elif name in ("time_in_force", "stop_limit_time_in_force"):
            kw[name] = "GTC"
        elif "Decimal" in ann:
            kw[name] = decimal(name)
        elif "bool" in ann:
            kw[name] = True if name == "amount_in_counter" else None
        elif "int" in ann and "str" not in ann:
            kw[name] = 5
        elif "str" in ann:
            kw[name] = strings(name)
        else:
            kw[name] = strings(name)
    if any(p.kind == p.VAR_KEYWORD for p in sig.parameters.values()):
        kw.update(extra())
    return kw


def _wire_query(url, params):
    # aiohttp: URL(url) leaves a yarl.URL instance untouched (incl. one built with encoded=True) and parses a str
    u = url if isinstance(url, yarl.URL) else yarl.URL(url)
    if params:
        u = u.update_query(params)
    return u, u.raw_query_string


def _wire_body(data):
    if not data:
        return ""
    fd = data if isinstance(data, aiohttp.FormData) else aiohttp.FormData(data)
    payload = fd()
    return payload._value.decode("utf-8")


def _strings(ctx, tier):
    st = dict(n=0, which=None, used=False)

    def gen(name):
        idx = st["n"]
        st["n"] += 1
        if st["which"] is None:
            st["which"] = ctx.choice("string_argument_under_test", 4)
        if idx == st["which"] or (not st["used"] and idx >= 3):
            st["used"] = True
            c = PRINTABLE[ctx.choice("character", len(PRINTABLE))]
            if tier == "thorough" and ctx.scratch.get("c16_env_idx", 0) == 0:
                # (the second free character is explored in the first environment only: the two dimensions are independent)
                c2 = (SPECIALS + [""])[ctx.choice("second_character", len(SPECIALS) + 1)]
            else:
                c2 = ""
            if not (c.isalnum()):
                ctx.cover("a URL-special character was sent")
            return "ab" + c + c2 + "Z9"
        return "plain" + str(idx)
    return gen


class _RandomRestore:
    """entry for ctx.patches that puts the process-wide PRNG state back at the end of the path"""
    def __setattr__(self, attr, old):
        random.setstate(old)


class _Clock(list):
    """one-cell clock (clk[0]); read() records the reading and, for a live clock, advances it"""
    def __init__(self, start, readings, tick):
        super().__init__([start])
        self.readings, self.tick = readings, tick

    def read(self):
        v = self[0]
        self.readings.append(v)
        self[0] = v + self.tick
        return v


def _stamp_ok(ctx, stamp_ms, n0):
    """the transmitted timestamp is one of the clock readings taken during this request (readings[n0:]); with a clock
    that stands still that is the time the request went out"""
    return any(stamp_ms == int(round(v * 1000)) for v in ctx.scratch["c16_readings"][n0:])


class _TimeProxy:
    """the name `time` inside a client module: time() reads the scenario clock, everything else is the real module"""
    def __init__(self, clk):
        self._clk = clk

    def time(self):
        return self._clk.read()

    def time_ns(self):
        return int(round(self._clk.read() * 10 ** 9))

    def __getattr__(self, name):
        return getattr(_time, name)


def _datetime_proxy(clk):
    """the name `datetime` inside a client module: now()/utcnow() read the scenario clock (through the real
    fromtimestamp, so the process's local zone applies exactly as it would to the real clock)"""
    class _DT(datetime.datetime):
        @classmethod
        def now(cls, tz=None):
            return datetime.datetime.fromtimestamp(clk.read(), tz)

        @classmethod
        def utcnow(cls):
            return datetime.datetime.utcfromtimestamp(clk.read())
    ns = types.SimpleNamespace(**{k: getattr(datetime, k) for k in dir(datetime) if not k.startswith("__")})
    ns.datetime = _DT
    return ns


def _clock_env(ctx, modules, tier="quick"):
    """Every clock source visible in the client modules reads the scenario clock; the process's local time zone is a
    solver choice (a timestamp must not depend on it).  Returns (clock cell, limiter wait)."""
    from .c17_wire import _local_zone
    envs = ENVS_THOROUGH if tier == "thorough" else ENVS
    env_idx = ctx.choice("environment", len(envs))
    ci, zone, wait, reseeds, tick = envs[env_idx]
    ctx.scratch["c16_reseeds"] = reseeds
    ctx.scratch["c16_readings"] = readings = []
    ctx.scratch["c16_tick"] = tick
    ctx.scratch["c16_env_idx"] = env_idx
    clk = _Clock(CLOCKS[ci], readings, 0.0007 if tick else 0.0)
    _local_zone(ctx, [zone])
    found = False
    for m in modules:
        if isinstance(getattr(m, "time", None), types.ModuleType):
            ctx.patch(m, "time", _TimeProxy(clk), both_modes=True)
            found = True
        if isinstance(getattr(m, "datetime", None), types.ModuleType):
            ctx.patch(m, "datetime", _datetime_proxy(clk), both_modes=True)
            found = True
    if not found:
        from symx.core import HarnessError
        raise HarnessError("no clock source (time / datetime module) found in %s" % [m.__name__ for m in modules])
    return clk, wait


def _throttle(ctx, module, clk, wait):
    """The clients' optional request limiter (`tb=`): None, or a limiter that makes every request wait 5 s / 0.25 s.
    asyncio.sleep inside the client module advances the scenario clock instead of suspending."""

    async def sleep(seconds):
        clk[0] = clk[0] + seconds
    ctx.patch(module, "asyncio", types.SimpleNamespace(sleep=sleep), both_modes=True)
    if wait is None:
        return None
    return types.SimpleNamespace(consume=lambda: wait)


def binance_endpoint(ctx, account="spot_account", method="query_order", tier="quick"):
    rec = _HmacRecorder()
    ctx.patch(bn_helpers, "hmac", rec, both_modes=True)
    clk, wait = _clock_env(ctx, [bn_base, bn_helpers], tier)
    sess = StubSession()
    api = BnAPIClient(api_key="the-key", api_secret="the-secret", session=sess, tb=_throttle(ctx, bn_base, clk, wait))
    acc = getattr(api, account)
    fn = getattr(acc, method)
    gen = _strings(ctx, tier)
    dec = lambda name: ctx.dec("dec_" + name, 4, lo=1, hi=10 ** 9)     # noqa: E731
    kw = _args_for(fn, gen, dec, lambda: {"newOrderRespType": gen("extra_kwarg"),
                                          "extraDecimal": Decimal(EXTRA_DECIMALS[ctx.choice("extra_decimal",
                                                                                            len(EXTRA_DECIMALS))])})
    n0 = len(ctx.scratch["c16_readings"])
    run(fn(**kw))
    clock = clk[0]              # (the clock moves while the limiter makes the request wait, and with every reading if live)
    call = sess.calls[-1]
    url, raw_q = _wire_query(call["url_obj"], call["params"])
    signed = any(p.startswith("signature=") for p in raw_q.split("&"))
    ctx.prove(call["headers"].get("X-MBX-APIKEY") == "the-key", "C16 binance: the API key accompanies the request",
              info=(account, method))
    if not signed:
        # user data stream endpoints are key-only
        ctx.prove(not rec.calls, "C16 binance: unsigned endpoints do not sign")
        return
    ctx.cover("a signed binance request was checked")
    parts = raw_q.split("&")
    sig_parts = [p for p in parts if p.startswith("signature=")]
    wire_q = "&".join(p for p in parts if not p.startswith("signature="))
    body = _wire_body(call["data"])
    ctx.prove(len(rec.calls) == 1 and len(sig_parts) == 1 and sig_parts[0] == "signature=sig0001",
              "C16 binance: exactly one signature, transmitted in the query string")
    msg = rec.calls[0]["msg"].decode("utf-8")
    ctx.prove(rec.calls[0]["key"] == b"the-secret", "C16 binance: signed under the account's secret")
    ctx.prove(msg == wire_q + body,
              "C16 binance: the signature covers exactly the transmitted query string (without the signature) followed "
              "by the transmitted body", info=dict(signed=msg, wire_query=wire_q, wire_body=body, endpoint=method))
    ts = [p for p in parts if p.startswith("timestamp=")]
    ctx.prove(len(ts) == 1 and ts[0].split("=")[1].isdigit() and
              (_stamp_ok(ctx, int(ts[0].split("=")[1]), n0) if ctx.scratch["c16_tick"] else
               ts[0] == "timestamp=%d" % int(round(clock * 1000))),
              "C16 binance: the timestamp is the current time in milliseconds", info=(ts, clock))



def bitstamp_endpoint(ctx, method="get_order_status", tier="quick"):
    rec = _HmacRecorder()
    ctx.patch(bt_helpers, "hmac", rec, both_modes=True)
    clk, wait = _clock_env(ctx, [bt_helpers, bt_client], tier)
    sess = StubSession()
    api = bt_client.APIClient(api_key="the-key", api_secret="the-secret", session=sess,
                              tb=_throttle(ctx, bt_client, clk, wait))
    fn = getattr(api, method)
    gen = _strings(ctx, tier)
    dec = lambda name: ctx.dec("dec_" + name, 4, lo=1, hi=10 ** 9)     # noqa: E731
    kw = _args_for(fn, gen, dec, lambda: {"extra_option": gen("extra_kwarg"),
                                          "extra_decimal": Decimal(EXTRA_DECIMALS[ctx.choice("extra_decimal",
                                                                                             len(EXTRA_DECIMALS))])})
    # the application may reseed the process-wide PRNG between requests (e.g. a strategy that seeds `random` at the
    # start of every cycle): nonces must not repeat because of it
    reseeds = ctx.scratch["c16_reseeds"]
    ctx.patches.append((_RandomRestore(), "state", random.getstate()))
    sent_at, first_reading = [], []
    for _ in range(2):
        if reseeds:
            random.seed(1234)
        first_reading.append(len(ctx.scratch["c16_readings"]))
        run(fn(**kw))
        sent_at.append(clk[0])
    nonces = []
    for i, call in enumerate(sess.calls):
        h = call["headers"]
        clock = sent_at[i]
        if "X-Auth-Signature" not in h:
            ctx.prove(not rec.calls, "C16 bitstamp: public endpoints do not sign")
            continue
        ctx.cover("a signed bitstamp request was checked")
        url = call["url_obj"] if isinstance(call["url_obj"], yarl.URL) else yarl.URL(call["url_obj"])
        if call["params"]:
            url = url.update_query(call["params"])
        body = _wire_body(call["data"])
        ctype = "application/x-www-form-urlencoded" if body else ""
        sent_ctype = h.get("Content-Type", "")
        ctx.prove(sent_ctype == ctype, "C16 bitstamp: the Content-Type header sent matches the body sent",
                  info=(sent_ctype, ctype))
        message = "BITSTAMP the-key" + call["method"] + url.host + url.raw_path + url.raw_query_string + sent_ctype + \
            h.get("X-Auth-Nonce", "") + h.get("X-Auth-Timestamp", "") + h.get("X-Auth-Version", "") + body
        msg = rec.calls[i]["msg"].decode("utf-8")
        ctx.prove(rec.calls[i]["key"] == b"the-secret", "C16 bitstamp: signed under the account's secret")
        ctx.prove(msg == message,
                  "C16 bitstamp: the signature covers the v2 message built from the transmitted method, host, path, "
                  "content type, nonce, timestamp and body", info=dict(signed=msg, wire=message))
        ctx.prove(h.get("X-Auth") == "BITSTAMP the-key" and h.get("X-Auth-Signature") == "sig%04d" % (i + 1),
                  "C16 bitstamp: key and signature accompany the request")
        stamp = h.get("X-Auth-Timestamp", "")
        ctx.prove(stamp.isdigit() and (_stamp_ok(ctx, int(stamp), first_reading[i]) if ctx.scratch["c16_tick"] else
                                       stamp == str(int(round(clock * 1000)))),
                  "C16 bitstamp: the timestamp is the current time in milliseconds")
        nonces.append(h.get("X-Auth-Nonce"))
    if len(nonces) == 2:
        ctx.cover("two nonces were compared")
        ctx.prove(nonces[0] != nonces[1] and all(nonces), "C16 bitstamp: nonces never repeat")


def _binance_methods():
    out = []
    api = BnAPIClient(api_key="k", api_secret="s")
    for account in ("spot_account", "cross_margin_account", "isolated_margin_account"):
        acc = getattr(api, account)
        for name, fn in inspect.getmembers(type(acc), predicate=inspect.iscoroutinefunction):
            if not name.startswith("_"):
                out.append((account, name))
    return out


def _bitstamp_methods():
    src_names = []
    for name, fn in inspect.getmembers(bt_client.APIClient, predicate=inspect.iscoroutinefunction):
        if name.startswith("_"):
            continue
        src = inspect.getsource(fn)
        if ", True" in src:        # authenticate=True
            src_names.append(name)
    return src_names


def jobs(tier):
    js = []
    for account, method in _binance_methods():
        js.append(Job("binance %s.%s" % (account, method), "binance_endpoint",
                      dict(account=account, method=method, tier=tier), validate_every=50, sample_every=100,
                      max_paths=500000, split=64 if tier == "thorough" else 0))
    for method in _bitstamp_methods():
        js.append(Job("bitstamp %s" % method, "bitstamp_endpoint", dict(method=method, tier=tier), validate_every=50,
                      sample_every=100, max_paths=500000, split=64 if tier == "thorough" else 0))
    return js

"""C13 Scheduled jobs run exactly once, on time and in order."""
from symx.run import Job
from .disp import scenario  # noqa: F401

META = dict(
    module="scenarios.c13_scheduler", level="model_checking",
    bounds=dict(
        quick="real BacktestingDispatcher on asyncio; 1-2 sources x 2 events and 3 jobs, all with symbolic microsecond "
              "timestamps (jobs anywhere from 2 days before the first possible event to 5 days after the last), every "
              "insertion order of the jobs (solver-chosen permutation), a job scheduled from a handler, a job scheduled "
              "from a job, a raising job (raising while it runs / when it is called), max_concurrent symbolic in 1..2; 6 jobs with symbolic times and no events; 2 jobs whose times are given in UTC / UTC+2 / UTC-3",
        thorough="adds 4 jobs (every insertion order), 2x2 events + 2 jobs and 1x3 events + 2 jobs with every extra "
                 "(job from handler, job from job, raising job) and max_concurrent 1..3, 7 jobs with symbolic times"),
    stubs=["logging disabled", "uuid.uuid4 deterministic"],
    assumptions=["sources yield events in non-decreasing time order", "a job and an event with the same timestamp may "
                 "run in either order (unspecified)", "the order clause is asserted for pairs of jobs that were both "
                 "scheduled before either of them ran"],
    outside=["more jobs/events than the stated shapes"],
    required_covers=["run completed", "a job ran", "events were delivered"],
)

BASE = dict(props=["C13"], derived=False, sniffers=False, dup=False, susp=False, raising=False)


def jobs(tier):
    js = [
        Job("1x2 events, 3 jobs", "scenario", dict(BASE, nsrc=1, nev=2, njobs=3, max_mc=2), split=200,
            max_paths=400000, validate_every=200, sample_every=400),
        Job("2x2 events, 2 jobs, raising job, job from handler", "scenario",
            dict(BASE, nsrc=2, nev=2, njobs=2, max_mc=2, raising_job=True, job_from_handler=True), split=200,
            max_paths=400000, validate_every=200, sample_every=400),
        Job("1x2 events, 2 jobs, job from job", "scenario",
            dict(BASE, nsrc=1, nev=2, njobs=2, max_mc=2, job_from_job=True), split=200, max_paths=400000,
            validate_every=200, sample_every=400),
        Job("no events, 3 jobs", "scenario", dict(BASE, nsrc=1, nev=0, njobs=3, max_mc=1), validate_every=20,
            sample_every=50),
        Job("1x2 events, 1 job, two jobs from one handler", "scenario",
            dict(BASE, nsrc=1, nev=2, njobs=1, max_mc=2, job_from_handler=2), split=200, max_paths=400000,
            validate_every=200, sample_every=400),
        Job("1x2 events, 3 jobs, a job that raises when it is called", "scenario",
            dict(BASE, nsrc=1, nev=2, njobs=3, max_mc=2, raising_job="call", job_perms=False), split=200,
            max_paths=400000, validate_every=200, sample_every=400),
        Job("1x2 events, 2 jobs, job times given in other time zones", "scenario",
            dict(BASE, nsrc=1, nev=2, njobs=2, max_mc=1, job_zones=True), split=200, max_paths=400000,
            validate_every=200, sample_every=400),
        # long job lists (the scheduler's heap needs >= 6 entries before every shape of sift-up/down occurs)
        Job("no events, 6 jobs, any times", "scenario", dict(BASE, nsrc=1, nev=0, njobs=6, max_mc=1, job_perms=False),
            split=200, max_paths=400000, validate_every=200, sample_every=400),
    ]
    if tier == "thorough":
        js += [
            Job("1x2 events, 4 jobs", "scenario", dict(BASE, nsrc=1, nev=2, njobs=4, max_mc=2), split=400,
                max_paths=3000000, validate_every=2000, sample_every=4000),
            Job("2x2 events, 2 jobs, all extras", "scenario",
                dict(BASE, nsrc=2, nev=2, njobs=2, max_mc=3, raising_job=True, job_from_handler=True,
                     job_from_job=True, job_perms=False), split=400, max_paths=3000000, validate_every=2000,
                sample_every=4000),
            Job("1x3 events, 2 jobs, all extras", "scenario",
                dict(BASE, nsrc=1, nev=3, njobs=2, max_mc=3, raising_job=True, job_from_handler=True,
                     job_from_job=True), split=400, max_paths=3000000, validate_every=2000, sample_every=4000),
            Job("no events, 7 jobs, any times", "scenario", dict(BASE, nsrc=1, nev=0, njobs=7, max_mc=1, job_perms=False),
                split=400, max_paths=3000000, validate_every=2000, sample_every=4000),
        ]
    return js

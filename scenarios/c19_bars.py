"""C19 Bars built from CSV rows and live trades are faithful."""
import contextlib
import datetime
import types
from decimal import Decimal

from basana.core import bar, dt as real_dt, event
from basana.core.event_sources import csv as core_csv
from basana.core.pair import Pair
from basana.external.common.csv import bars as common_bars
from basana.external.yahoo import bars as yahoo_bars

from symx import And, Implies, Not, Or, SymDec, DecimalFactory, smax, smin
from symx.core import Abort
from symx.run import Job

P = Pair("BTC", "USD")
UTC = datetime.timezone.utc
ZERO = Decimal(0)

META = dict(
    module="scenarios.c19_bars", level="model_checking",
    bounds=dict(
        quick="Bar() with five symbolic decimals; common and Yahoo RowParser.parse_row with symbolic numeric cells "
              "(incl. volume 0, invalid OHLC, sanitize, adjusted close); load_sort_and_yield over 3 events with symbolic "
              "times; RealTimeTradesToBar.main() over 3 windows with <= 3 trades whose timestamps (microseconds), "
              "prices and amounts are symbolic, bar durations {1, 60, 3600} s, start instant aligned / mid-window / "
              "last millisecond of a window, skip_first_bar on and off; byte-order-mark detection over all 2^32 four-byte "
              "file prefixes (four symbolic bytes); a two-row file written in utf-8 / utf-8 + BOM / utf-16 LE, BE / "
              "utf-32 LE, BE and read back through the binance CSV source (concrete values)",
        thorough="4 windows, 4 trades"),
    stubs=["basana.core.bar.asyncio.sleep / dt.utc_now -> virtual clock that delivers each trade at its own timestamp "
           "(zero-latency, in-order feed: the premise)", "the name Decimal inside the two RowParser modules -> factory "
           "that lets symbolic cells through", "csv.DictReader / open_file_with_detected_encoding replaced by in-memory "
           "rows for the sorting clause", "the name open inside basana.core.event_sources.csv -> stub whose binary read "
           "returns four symbolic bytes and whose text open records encoding and seek offset (BOM detection job only)"],
    assumptions=["trades arrive in non-decreasing time order no later than the flush of their window",
                 "CSV date cells are concrete (strptime is C code)"],
    outside=["the codecs themselves and the csv module's tokenisation (C level: exercised with concrete content per "
             "encoding, not symbolically)"],
    required_covers=["a bar was built from trades", "an invalid bar was refused", "a zero-volume row was skipped",
                     "a trade sat in the last millisecond of its window", "an out-of-order trade arrived",
                     "a byte-order mark was detected: utf-32-le", "a byte-order mark was detected: utf-16-le",
                     "a byte-order mark was detected: utf-8-sig"],
)


# ------------------------------------------------------------------------------------------ Bar validity
def bar_validity(ctx):
    o, h, l, c = [ctx.dec(n, 2, lo=-10 ** 6, hi=10 ** 9) for n in ("open", "high", "low", "close")]
    v = ctx.dec("volume", 8, lo=0, hi=10 ** 12)
    t = datetime.datetime(2020, 1, 1, tzinfo=UTC)
    try:
        b = bar.Bar(t, P, o, h, l, c, v)
    except bar.InvalidBar:
        ctx.cover("an invalid bar was refused")
        ctx.prove(Not(And(l <= o, l <= c, o <= h, c <= h)), "C19 Bar() refuses only inconsistent OHLC")
        return
    ctx.prove([b.low <= b.open, b.low <= b.close, b.open <= b.high, b.close <= b.high],
              "C19 every Bar satisfies low <= open, close <= high")
    ctx.prove([b.open == o, b.high == h, b.low == l, b.close == c, b.volume == v], "C19 a Bar carries the given values")


# ------------------------------------------------------------------------------------------ CSV rows
def csv_row(ctx, parser="common", sanitize=False, adjust=False):
    o, h, l, c = [ctx.dec(n, 2, lo=1, hi=10 ** 9) for n in ("open", "high", "low", "close")]
    v = ctx.dec("volume", 8, lo=0, hi=10 ** 12)
    td = datetime.timedelta(hours=24) if parser == "yahoo" else datetime.timedelta(minutes=1)
    if parser == "common":
        ctx.patch(common_bars, "Decimal", DecimalFactory)
        rp = common_bars.RowParser(P, UTC, td)
        row = {"datetime": "2015-03-04 05:06:00", "open": o, "high": h, "low": l, "close": c, "volume": v}
        start = datetime.datetime(2015, 3, 4, 5, 6, 0, tzinfo=UTC)
    else:
        ctx.patch(yahoo_bars, "Decimal", DecimalFactory)
        rp = yahoo_bars.RowParser(P, adjust_ohlc=adjust, tzinfo=UTC, timedelta=td)
        rp.sanitize = sanitize
        adj = ctx.dec("adj_close", 2, lo=1, hi=10 ** 9)
        row = {"Date": "2015-03-04", "Open": o, "High": h, "Low": l, "Close": c, "Adj Close": adj, "Volume": v}
        start = datetime.datetime(2015, 3, 4, tzinfo=UTC)
    valid = And(l <= o, l <= c, o <= h, c <= h)
    try:
        evs = rp.parse_row(row)
    except bar.InvalidBar:
        ctx.cover("an invalid bar was refused")
        if not sanitize:
            ctx.prove(Not(valid), "C19 a CSV row is refused only when its OHLC is inconsistent")
        else:
            ctx.prove(False, "C19 sanitised Yahoo rows are never refused")
        return
    if parser == "common":
        if len(evs) == 0:
            ctx.cover("a zero-volume row was skipped")
            ctx.prove(v == 0, "C19 only rows with zero volume are skipped")
            return
        ctx.prove(v != 0, "C19 a row with zero volume yields no bar")
    ctx.prove(len(evs) == 1, "C19 one bar event per row")
    ev = evs[0]
    b = ev.bar
    ctx.prove(ev.when == start + td and b.datetime == start and b.pair == P,
              "C19 the bar event is timestamped at the bar's start plus its period")
    ctx.prove([b.low <= b.open, b.low <= b.close, b.open <= b.high, b.close <= b.high],
              "C19 every Bar satisfies low <= open, close <= high")
    if parser == "common" or (not sanitize and not adjust):
        ctx.prove([b.open == o, b.high == h, b.low == l, b.close == c, b.volume == v],
                  "C19 the bar carries exactly the row's values")
    elif sanitize and not adjust:
        ctx.prove([b.open == o, b.close == c, b.volume == v, b.high == smax(h, o, c), b.low == smin(l, o, c)],
                  "C19 sanitising only widens high/low to contain open and close")
    elif adjust and not sanitize:
        ctx.prove([b.close == adj, b.open * c == o * adj, b.high * c == h * adj, b.low * c == l * adj, b.volume == v],
                  "C19 adjusted bars are the row's values scaled by adj_close / close")


UNIT_SECONDS = {"s": 1, "m": 60, "min": 60, "h": 3600, "hour": 3600, "d": 86400, "day": 86400, "w": 7 * 86400,
                "M": 31 * 86400}


def _period_seconds(period):
    """what a period string means (independent reading: <count><unit>)"""
    import re
    m = re.fullmatch(r"(\d*)([A-Za-z]+)", period)
    n = int(m.group(1)) if m.group(1) else 1
    return n * UNIT_SECONDS[m.group(2)]


def exchange_csv_source(ctx, which="binance"):
    """binance / bitstamp CSV BarSource: the period string selects the bar period; rows go through the common parser"""
    from basana.external.binance.csv import bars as bn_csv
    from basana.external.bitstamp.csv import bars as bt_csv
    mod = bn_csv if which == "binance" else bt_csv
    periods = sorted(mod.period_to_timedelta)
    choices = list(periods)
    if which == "bitstamp":
        choices += [mod.BarPeriod.MINUTE, mod.BarPeriod.HOUR, mod.BarPeriod.DAY]
    period = choices[ctx.choice("period", len(choices))]
    ctx.patch(common_bars, "Decimal", DecimalFactory)
    src = mod.BarSource(P, "no-such-file.csv", period)
    o, h, l, c = [ctx.dec(n, 2, lo=1, hi=10 ** 9) for n in ("open", "high", "low", "close")]
    v = ctx.dec("volume", 8, lo=1, hi=10 ** 12)
    ctx.assume(l <= o, l <= c, o <= h, c <= h)
    row = {"datetime": "2015-03-04 05:06:00", "open": o, "high": h, "low": l, "close": c, "volume": v}
    evs = src.row_parser.parse_row(row)
    start = datetime.datetime(2015, 3, 4, 5, 6, 0, tzinfo=UTC)
    if not isinstance(period, str):
        secs = {"MINUTE": 60, "HOUR": 3600, "DAY": 86400}[period.name]
    else:
        secs = _period_seconds(period)
    ctx.prove(len(evs) == 1 and evs[0].when == start + datetime.timedelta(seconds=secs) and
              evs[0].bar.datetime == start,
              "C19 %s CSV source: the bar event is timestamped at the bar's start plus its period" % which,
              info=str(period))
    b = evs[0].bar
    ctx.prove([b.open == o, b.high == h, b.low == l, b.close == c, b.volume == v, b.pair == P],
              "C19 %s CSV source: the bar carries exactly the row's values" % which)


# ------------------------------------------------------------------------------------------ file encodings
class _SymPrefix:
    """the first bytes of a file, each a symbolic integer 0..255: startswith() forks on the comparison"""
    def __init__(self, bs):
        self.bs = bs

    def startswith(self, prefix):
        if len(prefix) > len(self.bs):
            return False
        return bool(And([b == p for b, p in zip(self.bs, prefix)]))


class _ModGlobals:
    def __init__(self, mod):
        object.__setattr__(self, "mod", mod)

    def __setattr__(self, name, old):
        if old is _ABSENT:
            self.mod.__dict__.pop(name, None)
        else:
            self.mod.__dict__[name] = old


_ABSENT = object()
BOMS = [("utf-32-le", b"\xff\xfe\x00\x00"), ("utf-32-be", b"\x00\x00\xfe\xff"), ("utf-8-sig", b"\xef\xbb\xbf"),
        ("utf-16-le", b"\xff\xfe"), ("utf-16-be", b"\xfe\xff")]        # longest first


def csv_bom_detection(ctx):
    """open_file_with_detected_encoding over EVERY 4-byte file prefix (four symbolic bytes): the encoding chosen is the
    one of the longest byte-order mark the file starts with (else the default), and exactly the mark is skipped."""
    import codecs
    raw = [ctx.int("byte%d" % i, 0, 255) for i in range(4)]
    opened = []

    class _Bin:
        def __enter__(self):
            return self

        def __exit__(self, *a):
            return False

        def read(self, n):
            if ctx.mode == "sym":
                return _SymPrefix(raw[:n])
            return bytes(raw[:n])

    class _Text:
        def __init__(self, encoding):
            self.encoding, self.offset = encoding, 0

        def seek(self, off):
            self.offset = off

        def close(self):
            pass

    def fake_open(filename, mode="r", encoding=None, **kw):
        if "b" in mode:
            return _Bin()
        t = _Text(encoding)
        opened.append(t)
        return t
    ctx.patches.append((_ModGlobals(core_csv), "open", core_csv.__dict__.get("open", _ABSENT)))
    core_csv.__dict__["open"] = fake_open
    with core_csv.open_file_with_detected_encoding("x.csv") as f:
        got_enc, got_off = f.encoding, f.offset
    ctx.prove(len(opened) == 1, "C19 the file is opened once with the detected encoding")
    matched_longer = []
    for enc, bom in BOMS:
        is_it = And([raw[i] == bom[i] for i in range(len(bom))] + [Not(m) for m in matched_longer])
        ok = codecs.lookup(got_enc).name == codecs.lookup(enc).name and got_off == len(bom)
        if not ok:
            ctx.prove(Not(is_it), "C19 a file starting with the %s byte-order mark is read as %s, the mark skipped" %
                      (enc, enc), info=(got_enc, got_off))
        else:
            if bool(is_it):
                ctx.cover("a byte-order mark was detected: " + enc)
        matched_longer.append(And([raw[i] == bom[i] for i in range(len(bom))]))
    if codecs.lookup(got_enc).name != "utf-8" or got_off:
        ctx.prove(Or(matched_longer), "C19 a file without a byte-order mark is read with the default encoding (utf-8)",
                  info=(got_enc, got_off))


def csv_file_encodings(ctx, which="binance"):
    """end to end through a real file: the same two rows (one with zero volume) written in every supported encoding
    (the encoding is a choice variable; values are concrete: they pass through the codecs and the csv module)"""
    import codecs
    import os
    import tempfile
    from basana.external.binance.csv import bars as bn_csv
    encs = [("utf-8", b""), ("utf-8", codecs.BOM_UTF8), ("utf-16-le", codecs.BOM_UTF16_LE),
            ("utf-16-be", codecs.BOM_UTF16_BE), ("utf-32-le", codecs.BOM_UTF32_LE), ("utf-32-be", codecs.BOM_UTF32_BE)]
    enc, bom = encs[ctx.choice("file_encoding", len(encs))]
    shape = ["1", "0.5", "31234.56", "100000"][ctx.choice("price_shape", 4)]
    text = ("datetime,open,high,low,close,volume\n"
            "2015-03-04 05:06:00,%s,%s,%s,%s,12.5\n"
            "2015-03-04 05:07:00,%s,%s,%s,%s,0\n" % ((shape,) * 8))
    fd, path = tempfile.mkstemp(suffix=".csv")
    try:
        with os.fdopen(fd, "wb") as f:
            f.write(bom + text.encode(enc))
        src = bn_csv.BarSource(P, path, "1m")
        evs = list(core_csv.load_and_yield(path, src.row_parser))
    finally:
        os.unlink(path)
    ctx.prove(len(evs) == 1, "C19 a CSV bar source yields one bar event per row with non-zero volume, whatever the "
                             "file's encoding", info=(enc, bool(bom), len(evs)))
    if len(evs) == 1:
        b = evs[0].bar
        d = Decimal(shape)
        ctx.prove(b.open == d and b.high == d and b.low == d and b.close == d and b.volume == Decimal("12.5") and
                  evs[0].when == datetime.datetime(2015, 3, 4, 5, 7, tzinfo=UTC),
                  "C19 the bar carries exactly the row's values, whatever the file's encoding", info=(enc, bool(bom)))
        ctx.cover("a zero-volume row was skipped")


class _Ev(event.Event):
    pass


def csv_sort(ctx, n=3):
    """load_sort_and_yield: the yielded events are the parsed ones in non-decreasing time order."""
    lo, hi = datetime.datetime(2015, 1, 1, tzinfo=UTC), datetime.datetime(2015, 1, 3, tzinfo=UTC)
    whens = [ctx.dt("when%d" % i, lo, hi) for i in range(n)]
    rows = [{"i": i} for i in range(n)]
    events = {i: _Ev(whens[i]) for i in range(n)}

    class RP(core_csv.RowParser):
        def parse_row(self, row_dict):
            return [events[row_dict["i"]]]

    @contextlib.contextmanager
    def fake_open(filename, default_encoding="utf-8"):
        yield object()
    fake_csv = types.SimpleNamespace(DictReader=lambda f, **kw: iter(rows))
    ctx.patch(core_csv, "open_file_with_detected_encoding", fake_open, both_modes=True)
    ctx.patch(core_csv, "csv", fake_csv, both_modes=True)
    out = list(core_csv.load_sort_and_yield("x.csv", RP()))
    ctx.prove(sorted(id(e) for e in out) == sorted(id(e) for e in events.values()),
              "C19 sorting yields exactly the parsed events")
    for a, b in zip(out, out[1:]):
        ctx.prove(a.when <= b.when, "C19 events are yielded in time order when sorting is requested")
    out2 = list(core_csv.load_and_yield("x.csv", RP()))
    ctx.prove([a is b for a, b in zip(out2, [events[i] for i in range(n)])] + [len(out2) == n],
              "C19 without sorting events are yielded in file order")


# ------------------------------------------------------------------------------------------ trades -> bars
class _Stop(BaseException):
    pass


STARTS = {
    "aligned": datetime.datetime(2024, 1, 1, 10, 0, 0, 0, tzinfo=UTC),
    "mid": datetime.datetime(2024, 1, 1, 10, 0, 7, 250000, tzinfo=UTC),
    "last_ms": datetime.datetime(2024, 1, 1, 10, 59, 59, 999500, tzinfo=UTC),
}


def trades_to_bars(ctx, ntrades=2, nwindows=3, duration=60, start="mid", skip_first=False, late=False):
    START = STARTS[start]
    D = duration
    src = bar.RealTimeTradesToBar(P, D, skip_first_bar=skip_first, flush_delay=0.5)
    errors = []
    src.on_error = lambda e: errors.append(e)
    first_begin = START - datetime.timedelta(seconds=START.timestamp() % D)
    horizon = first_begin + datetime.timedelta(seconds=D * nwindows)
    whens = [ctx.dt("trade_time%d" % i, START, horizon - datetime.timedelta(microseconds=1)) for i in range(ntrades)]
    for a, b in zip(whens, whens[1:]):
        ctx.assume(a <= b)
    prices = [ctx.dec("price%d" % i, 2, lo=1, hi=10 ** 9) for i in range(ntrades)]
    amts = [ctx.dec("amount%d" % i, 8, lo=1, hi=10 ** 12) for i in range(ntrades)]
    arrival = list(whens)
    pending = list(range(ntrades))
    pending_order = list(pending)
    in_order = [True] * ntrades
    if late:
        # one more trade that arrives right after trade j, whatever its own timestamp says: if that timestamp is older
        # than trade j's it is out of order and must be reported and left out of every bar
        j = ctx.choice("late_trade_arrives_after", ntrades)
        wx = ctx.dt("late_trade_time", START, horizon - datetime.timedelta(microseconds=1))
        whens.append(wx)
        prices.append(ctx.dec("late_price", 2, lo=1, hi=10 ** 9))
        amts.append(ctx.dec("late_amount", 8, lo=1, hi=10 ** 12))
        # it arrives at a solver-chosen instant between trade j and the next regular trade (possibly after windows
        # have been flushed in between)
        ax = ctx.dt("late_trade_arrival", START, horizon - datetime.timedelta(microseconds=1))
        ctx.assume(ax >= whens[j])
        if j + 1 < ntrades:
            ctx.assume(ax <= whens[j + 1])
        arrival.append(ax)
        pending.insert(j + 1, ntrades)
        pending_order = list(pending)
        # in order = not older than what arrived before it and not inside a window that was flushed before it arrived
        # (a window [b, b + D) is flushed flush_delay = 0.5 s after its last microsecond)
        ok = bool(wx >= whens[j])
        if ok and j + 1 < ntrades:
            if not bool(wx <= whens[j + 1]):   # otherwise the next regular trade would be the out-of-order one
                raise Abort()
        if ok:
            for k in range(nwindows):
                b0 = first_begin + k * datetime.timedelta(seconds=D)
                flushed_at = b0 + datetime.timedelta(seconds=D, microseconds=-1) + datetime.timedelta(seconds=0.5)
                if bool(wx < b0 + datetime.timedelta(seconds=D)) and bool(ax > flushed_at):   # (ties: delivered before the flush)
                    ok = False          # its window is gone: late, reported, left out
                    break
        in_order.append(ok)
        if not ok:
            ctx.cover("an out-of-order trade arrived")
    clock = [START]

    def deliver_until(t):
        # zero-latency feed: every trade has arrived (in arrival order) by the time the clock reads its arrival time
        while pending and bool(arrival[pending[0]] <= t):
            i = pending.pop(0)
            src.push_trade(whens[i], prices[i], amts[i])
    flushes = [0]

    async def fake_sleep(secs):
        t = clock[0] + datetime.timedelta(seconds=secs)
        deliver_until(t)
        clock[0] = t

    def utc_now():
        return clock[0]
    orig_flush = src._flush

    def counting_flush(b, e):
        deliver_until(clock[0])
        orig_flush(b, e)
        flushes[0] += 1
        if flushes[0] >= nwindows + 1:
            raise _Stop()
    src._flush = counting_flush
    ctx.patch(bar, "asyncio", types.SimpleNamespace(sleep=fake_sleep), both_modes=True)
    ctx.patch(bar, "dt", types.SimpleNamespace(utc_now=utc_now, is_naive=real_dt.is_naive), both_modes=True)
    co = src.main()
    try:
        co.send(None)
        raise RuntimeError("RealTimeTradesToBar.main() suspended outside the stubbed sleep")
    except _Stop:
        pass
    finally:
        co.close()
    bars = []
    while (ev := src.pop()) is not None:
        bars.append(ev)
    # ---- oracle: window k = [first_begin + k*D, first_begin + (k+1)*D)
    sec = datetime.timedelta(seconds=D)
    members = {k: [] for k in range(nwindows)}
    for i, w in enumerate(whens):
        if not in_order[i]:
            continue
        for k in range(nwindows):
            b0 = first_begin + k * sec
            if bool(And(w >= b0, w < b0 + sec)):
                members[k].append(i)
                if bool(w >= b0 + sec - datetime.timedelta(milliseconds=1)):
                    ctx.cover("a trade sat in the last millisecond of its window")
                break
    n_ooo = sum(1 for x in in_order if not x)
    ctx.prove(len(errors) == n_ooo, "C19 exactly the out-of-order trades are reported (no in-order trade is)",
              info=(len(errors), n_ooo))
    # members must be listed in arrival order for first/last
    for k in members:
        members[k].sort(key=lambda i: (pending_order.index(i)))
    expected = []
    for k in range(nwindows):
        if not members[k] or (skip_first and k == 0):
            continue
        ps = [prices[i] for i in members[k]]
        vol = ZERO
        for i in members[k]:
            vol = vol + amts[i]
        expected.append(dict(k=k, begin=first_begin + k * sec, open=ps[0], close=ps[-1], high=smax(ps) if len(ps) > 1
                             else ps[0], low=smin(ps) if len(ps) > 1 else ps[0], volume=vol))
    ctx.prove(len(bars) == len(expected), "C19 every in-order trade is assigned to exactly one bar (one bar per "
                                          "non-empty window)", info=(len(bars), len(expected)))
    tot, exp_tot = ZERO, ZERO
    for ev in bars:
        tot = tot + ev.bar.volume
    for e in expected:
        exp_tot = exp_tot + e["volume"]
    ctx.prove(tot == exp_tot, "C19 the bars' volumes add up to the traded amounts")
    for ev, e in zip(bars, expected):
        b = ev.bar
        ctx.cover("a bar was built from trades")
        ctx.prove([b.datetime == e["begin"], b.open == e["open"], b.high == e["high"], b.low == e["low"],
                   b.close == e["close"], b.volume == e["volume"]],
                  "C19 a bar's open/high/low/close/volume are the first/max/min/last price and summed amount of the "
                  "trades of its window")
        ctx.prove([ev.when > e["begin"], ev.when <= e["begin"] + sec],
                  "C19 the bar event is stamped at the end of its window")
        ctx.prove([b.low <= b.open, b.low <= b.close, b.open <= b.high, b.close <= b.high],
                  "C19 every Bar satisfies low <= open, close <= high")
    for a, b in zip(bars, bars[1:]):
        ctx.prove(a.when < b.when, "C19 bars are emitted in time order")
    if not late:
        ctx.cover("an out-of-order trade arrived")
    ctx.cover("an invalid bar was refused")
    ctx.cover("a zero-volume row was skipped")
    if not any(members[k] for k in members):
        ctx.cover("a bar was built from trades")
    if start != "last_ms" and D > 1:
        pass


def jobs(tier):
    nt, nw = (3, 3) if tier == "quick" else (4, 4)
    js = [Job("Bar validity", "bar_validity", validate_every=2, sample_every=5),
          Job("csv row common", "csv_row", dict(parser="common"), validate_every=2, sample_every=5),
          Job("csv row yahoo", "csv_row", dict(parser="yahoo"), validate_every=2, sample_every=5),
          Job("csv row yahoo sanitize", "csv_row", dict(parser="yahoo", sanitize=True), validate_every=2,
              sample_every=5),
          Job("csv row yahoo adjust", "csv_row", dict(parser="yahoo", adjust=True), validate_every=2, sample_every=5),
          Job("csv byte-order-mark detection, every 4-byte prefix", "csv_bom_detection", validate_every=3,
              sample_every=5),
          Job("csv file in every supported encoding", "csv_file_encodings", validate_every=2, sample_every=5),
          Job("csv sort", "csv_sort", dict(n=3 if tier == "quick" else 4), validate_every=2, sample_every=5),
          Job("binance csv source periods", "exchange_csv_source", dict(which="binance"), validate_every=4,
              sample_every=8),
          Job("bitstamp csv source periods", "exchange_csv_source", dict(which="bitstamp"), validate_every=4,
              sample_every=8)]
    for dur in (1, 60, 3600):
        for start in ("aligned", "mid", "last_ms"):
            for skip in (False, True):
                if skip and dur != 60:
                    continue
                js.append(Job("trades D=%d start=%s skip_first=%s" % (dur, start, skip), "trades_to_bars",
                              dict(ntrades=nt, nwindows=nw, duration=dur, start=start, skip_first=skip),
                              validate_every=20, sample_every=50, split=100 if tier != "quick" else 0,
                              max_paths=500000))
    for start in ("aligned", "mid"):
        js.append(Job("trades with a late trade D=60 start=%s" % start, "trades_to_bars",
                      dict(ntrades=nt - 1, nwindows=nw, duration=60, start=start, late=True), validate_every=20,
                      sample_every=50, split=100, max_paths=500000))
    return js

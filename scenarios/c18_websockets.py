"""C18 Websocket channels stay subscribed across faults and route correctly.

The real websocket clients (generic core client through its Binance and Bitstamp subclasses) run on a virtual-time
asyncio loop against a fake socket whose behaviour is a solver-chosen fault script.  Obligations are phrased over the
observed trace (frames actually delivered / sent on each connection), never over the script.
"""
import asyncio
import datetime
import json
import types

import aiohttp

from basana.core import event, websockets as core_ws
from basana.external.binance import spot as bn_spot, websockets as bn_ws
from basana.external.bitstamp import websockets as bt_ws

from symx.run import Job
from symx.vloop import VLoop

from .http_stub import Resp
from .rt import EPOCH0

META = dict(
    module="scenarios.c18_websockets", level="fault_enumeration",
    bounds=dict(
        quick="clients: binance WebSocketClient (public trade channel + spot user-data channel with listen key and "
              "keep-alive), bitstamp Public and Private clients (2 channels); fault script of 2 steps per run on the first "
              "connection and 1 on the second, each step solver-chosen from {channel message A, channel message B, "
              "garbage frame, unknown JSON, normal close, abrupt drop, server reconnect request (bitstamp), "
              "listenKeyExpired (binance), subscription error reply, 300 ms delay, register a new channel while "
              "connected}; failing listen-key creation on the first attempt (choice), failing first keep-alive request "
              "(choice); horizon 9 virtual s (binance) / 6 s, keep-alive "
              "period 2 s, back-off 1 s",
        thorough="3 steps on the first connection, 1 on the second"),
    stubs=["aiohttp session -> fake with ws_connect()/post(); fake socket implements __aiter__/send_str/close/closed",
           "core.websockets.time and binance.websockets.time -> virtual clock", "dispatcher -> minimal scheduler running "
           "jobs at their time on the virtual loop", "binance API client -> stub issuing listen keys and recording "
           "keep-alives"],
    assumptions=["the fake socket is faithful to aiohttp.ClientWebSocketResponse for the members the clients use",
                 "every path is one fault script: the solver's contribution is the feasibility-checked enumeration of "
                 "the script variables"],
    outside=["TLS / real network behaviour", "scripts longer than stated"],
    required_covers=["a connection was re-established", "a channel message was routed", "a listen key expired on a live "
                     "connection", "a channel was registered while connected", "a keep-alive was due"],
)

STEPS_COMMON = ["msgA", "msgB", "garbage", "unknown", "close", "drop", "sub_error", "delay", "register"]


class Msg:
    def __init__(self, data, type=aiohttp.WSMsgType.TEXT):
        self.data, self.type = data, type


class FakeWS:
    def __init__(self, conn_id, script, log, on_step):
        self.conn_id, self.script, self.log, self.on_step = conn_id, list(script), log, on_step
        self.closed = False
        self._wake = asyncio.Event()
        self._subscribed = asyncio.Event()     # a server only streams channel data after a subscription arrived
        self.quiescent_at = None

    def __aiter__(self):
        return self

    async def __anext__(self):
        loop = asyncio.get_event_loop()
        while True:
            if self.closed:
                raise StopAsyncIteration
            if not self.script:
                if self.quiescent_at is None:
                    self.quiescent_at = loop.time()
                    self.log.append((self.conn_id, "quiescent", loop.time()))
                await self._wake.wait()
                self._wake.clear()
                continue
            if not self._subscribed.is_set():
                await self._subscribed.wait()
                if self.closed:
                    raise StopAsyncIteration
            step = self.script.pop(0)
            await asyncio.sleep(0.3 if step[0] == "delay" else 0.01)
            if self.closed:
                raise StopAsyncIteration
            kind = step[0]
            self.log.append((self.conn_id, "delivered", step, loop.time()))
            if kind == "frame":
                return Msg(json.dumps(step[1]))
            if kind == "garbage":
                return Msg("{not json")
            if kind == "close":
                self.closed = True
                raise StopAsyncIteration
            if kind == "drop":
                self.closed = True
                raise aiohttp.ClientError("connection dropped")
            if kind == "register":
                self.on_step("register")
            # "delay": nothing to deliver

    async def send_str(self, s):
        loop = asyncio.get_event_loop()
        await asyncio.sleep(0.004)          # a real socket write may suspend
        self.log.append((self.conn_id, "sent", json.loads(s), loop.time()))
        self._subscribed.set()

    async def close(self):
        self.closed = True
        self._wake.set()
        self._subscribed.set()


class FakeSession:
    def __init__(self, scripts, log, on_step):
        self.scripts, self.log, self.on_step = scripts, log, on_step
        self.n = 0
        self.connects = []

    def ws_connect(self, url, heartbeat=None):
        sess = self

        class CM:
            async def __aenter__(s):
                loop = asyncio.get_event_loop()
                sess.connects.append(loop.time())
                script = sess.scripts[sess.n] if sess.n < len(sess.scripts) else []
                s.ws = FakeWS(sess.n, script, sess.log, sess.on_step)
                sess.n += 1
                return s.ws

            async def __aexit__(s, *a):
                s.ws.closed = True
                sess.log.append((s.ws.conn_id, "exit", asyncio.get_event_loop().time()))
                return False
        return CM()

    def post(self, url, **kw):      # bitstamp websockets token (a REST round trip that takes a while)
        class SlowResp(Resp):
            async def __aenter__(self_):
                await asyncio.sleep(0.03)
                return self_
        return SlowResp({"token": "tok", "user_id": 77})

    def get(self, url, **kw):
        return Resp({})


class RecSource(core_ws.ChannelEventSource):
    def __init__(self, producer, name):
        super().__init__(producer)
        self.name = name
        self.received = []

    async def push_from_message(self, message):
        self.received.append(message)
        self.push(event.Event(datetime.datetime.now(tz=datetime.timezone.utc)))


class MiniDispatcher:
    """runs scheduled jobs at their (virtual) time"""
    def __init__(self, loop):
        self.loop = loop
        self.tasks = []

    def now(self):
        return self.loop.utc_now()

    def schedule(self, when, job):
        async def runner():
            delay = (when - self.now()).total_seconds()
            if delay > 0:
                await asyncio.sleep(delay)
            try:
                await job()
            except Exception:           # the real dispatcher logs a failing job and carries on
                pass
        self.tasks.append(asyncio.ensure_future(runner()))


class FakeSpotAccountCli:
    def __init__(self, log, fail_first, fail_first_keep_alive=False):
        self.k = 0
        self.log = log
        self.fail_first = fail_first
        self.fail_first_keep_alive = fail_first_keep_alive
        self.nka = 0

    async def create_listen_key(self):
        await asyncio.sleep(0.03)           # a REST round trip: other things happen meanwhile
        self.k += 1
        if self.fail_first and self.k == 1:
            raise aiohttp.ClientError("listen key creation failed")
        return {"listenKey": "LK%d" % self.k}

    async def keep_alive_listen_key(self, key):
        self.log.append(("api", "keepalive", key, asyncio.get_event_loop().time()))
        self.nka += 1
        if self.fail_first_keep_alive and self.nka == 1:
            raise aiohttp.ClientError("keep-alive request failed")      # (a 5xx / timeout: the next one is still due)
        return {}


def scenario(ctx, client="binance", steps1=2, steps2=1):
    kinds = list(STEPS_COMMON)
    kinds.append("expired" if client == "binance" else "reconnect_request")
    picks = [[kinds[ctx.choice("c%d_step%d" % (c, i), len(kinds))] for i in range(n)]
             for c, n in ((0, steps1), (1, steps2))]
    fail_first_key = ctx.flag("listen_key_creation_fails_first") if client == "binance" else False
    fail_first_ka = ctx.flag("first_keep_alive_request_fails") if client == "binance" else False
    log = []
    out = {}
    HORIZON = 9.0 if client == "binance" else 6.0

    async def body(loop):
        clock = types.SimpleNamespace(time=loop.time)
        ctx.patch(core_ws, "time", clock, both_modes=True)
        ctx.patch(bn_ws, "time", clock, both_modes=True)
        late = {}
        holder = {}

        def on_step(what):
            if what == "register" and "late" not in late:
                cli = holder["cli"]
                if client == "binance":
                    ch = bn_ws.PublicChannel("ethusdt@trade")
                    src = RecSource(cli, "late")
                    cli.set_channel_event_source_ex(ch, src)
                    late["late"] = ("ethusdt@trade", src)
                else:
                    src = RecSource(cli, "late")
                    cli.set_channel_event_source("live_trades_ethusd", src)
                    late["late"] = ("live_trades_ethusd", src)
                log.append((None, "registered", late["late"][0], loop.time()))

        def frame(name, conn):
            if client == "binance":
                if name == "msgA":
                    return ("frame", {"stream": "btcusdt@trade", "data": {"e": "trade", "E": 1}})
                if name == "msgB":
                    return ("frame", {"stream": "LK%d" % out.get("keys_issued", 1), "data": {"e": "executionReport"}})
                if name == "expired":
                    return ("frame", {"stream": "LK%d" % out.get("keys_issued", 1), "data": {"e": "listenKeyExpired"}})
                if name == "unknown":
                    return ("frame", {"foo": "bar"})
                if name == "sub_error":
                    return ("frame", {"result": {"code": 2, "msg": "bad"}, "id": 1})
            else:
                suffix = "-77" if client == "bitstamp_private" else ""
                if name == "msgA":
                    return ("frame", {"event": "trade", "channel": "live_trades_btcusd" + suffix, "data": {}})
                if name == "msgB":
                    return ("frame", {"event": "data", "channel": "order_book_btcusd" + suffix, "data": {}})
                if name == "reconnect_request":
                    return ("frame", {"event": "bts:request_reconnect", "channel": "", "data": ""})
                if name == "unknown":
                    return ("frame", {"event": "bts:nonsense", "data": {}})
                if name == "sub_error":
                    return ("frame", {"event": "bts:error", "channel": "", "data": {"code": 4009, "message": "x"}})
            return (name,)
        scripts = [[frame(n, c) for n in row] for c, row in enumerate(picks)]
        sess = FakeSession(scripts, log, on_step)
        d = MiniDispatcher(loop)
        srcs = {}
        if client == "binance":
            api = types.SimpleNamespace(spot_account=FakeSpotAccountCli(log, fail_first_key, fail_first_ka))
            cli = bn_ws.WebSocketClient(d, api, session=sess, config_overrides={
                "api": {"websockets": {"base_url": "ws://x/", "spot": {"user_data_stream": {"heartbeat": 2}}}}})
            chA = bn_ws.PublicChannel("btcusdt@trade")
            srcs["A"] = RecSource(cli, "A")
            cli.set_channel_event_source_ex(chA, srcs["A"])
            chB = bn_spot.SpotUserDataChannel()
            srcs["B"] = RecSource(cli, "B")
            cli.set_channel_event_source_ex(chB, srcs["B"])
            out["api"] = api
        else:
            if client == "bitstamp_public":
                cli = bt_ws.PublicWebSocketClient(session=sess, config_overrides={"api": {"websockets": {
                    "base_url": "ws://x/"}}})
                names = ("live_trades_btcusd", "order_book_btcusd")
            else:
                cli = bt_ws.PrivateWebSocketClient("k", "s", session=sess, config_overrides={"api": {"websockets": {
                    "base_url": "ws://x/"}, "http": {"base_url": "http://x/"}}})
                names = ("live_trades_btcusd", "order_book_btcusd")
            for key, name in zip("AB", names):
                srcs[key] = RecSource(cli, key)
                cli.set_channel_event_source(name if client == "bitstamp_public" else name, srcs[key])
        holder["cli"] = cli
        t = asyncio.ensure_future(cli.main())
        await asyncio.sleep(HORIZON)
        t.cancel()
        try:
            await t
        except BaseException:       # noqa
            pass
        for jt in d.tasks:
            jt.cancel()
        out.update(connects=list(sess.connects), srcs=srcs, late=late, end=loop.time(),
                   main_error=(t.exception() if t.done() and not t.cancelled() else None))
    loop = VLoop(EPOCH0)
    try:
        asyncio.set_event_loop(loop)
        loop.run_until_complete(body(loop))
    finally:
        pend = [t for t in asyncio.all_tasks(loop) if not t.done()]
        for t in pend:
            t.cancel()
        if pend:
            loop.run_until_complete(asyncio.gather(*pend, return_exceptions=True))
        asyncio.set_event_loop(None)
        loop.close()

    # =============================================================== oracle over the trace
    ctx.prove(out["main_error"] is None, "C18 the websocket producer keeps running whatever the server does",
              info=repr(out["main_error"]))
    connects = out["connects"]
    if len(connects) >= 2:
        ctx.cover("a connection was re-established")
    for a, b in zip(connects, connects[1:]):
        ctx.prove(b - a >= 1 - 1e-9, "C18 successive connection attempts are at least the back-off apart", info=(a, b))

    def subscribed_streams(conn):
        outp = []
        for rec in log:
            if rec[0] == conn and rec[1] == "sent":
                m = rec[2]
                if client == "binance":
                    if m.get("method") == "SUBSCRIBE":
                        outp += [(s, rec[3]) for s in m["params"]]
                else:
                    if m.get("event") == "bts:subscribe":
                        outp.append((m["data"]["channel"], rec[3]))
        return outp

    def ended(conn):
        """time at which a delivered step ended connection `conn`, or None"""
        for rec in log:
            if rec[0] == conn and rec[1] == "delivered":
                k = rec[2][0]
                if k in ("close", "drop", "garbage"):
                    return rec[3]
                if k == "frame" and client != "binance" and rec[2][1].get("event") == "bts:request_reconnect":
                    return rec[3]
        return None
    suffix = "-77" if client == "bitstamp_private" else ""
    for conn in range(len(connects)):
        subs = subscribed_streams(conn)
        qt = [r[2] for r in log if r[0] == conn and r[1] == "quiescent"]
        left = [r[2] for r in log if r[0] == conn and r[1] == "exit"]
        # (a connection that went quiet less than half a second before the horizon, or that was torn down within half
        # a second - e.g. because creating the listen key failed - may not have subscribed yet)
        # a connection that stays up for a second has subscribed to something (a failing subscription attempt - e.g.
        # listen-key creation failing - must end in a reconnect, not in a live connection nobody subscribed on)
        alive_until = left[0] if left else out["end"]
        if alive_until - connects[conn] >= 1.0:
            ctx.cover("a connection stayed up for a second")
            ctx.prove(bool(subs), "C18 a connection that stays up does not stay unsubscribed", info=(conn, alive_until))
        if not qt or ended(conn) is not None or qt[0] + 0.5 > out["end"] or (left and left[0] < qt[0] + 0.5):
            continue
        # every channel registered before this connection went quiet is subscribed on THIS connection
        if client == "binance":
            ctx.prove(any(s == "btcusdt@trade" for s, _ in subs), "C18 every registered channel is subscribed again on "
                                                                  "each established connection", info=(conn, subs))
            key_ok = out["api"].spot_account.k >= 1 and any(s.startswith("LK") for s, _ in subs)
            ctx.prove(key_ok, "C18 the user-data channel is subscribed on each established connection (with a listen "
                              "key)", info=(conn, subs))
        else:
            for name in ("live_trades_btcusd", "order_book_btcusd"):
                ctx.prove(any(s == name + suffix for s, _ in subs), "C18 every registered channel is subscribed again "
                          "on each established connection", info=(conn, name, subs))
        if out["late"]:
            lname, lsrc = out["late"]["late"]
            reg_t = [r[3] for r in log if r[1] == "registered"][0]
            conn_start = connects[conn]
            if conn_start <= reg_t or True:
                ctx.cover("a channel was registered while connected")
                ctx.prove(any(s == lname + (suffix if client != "binance" else "") for s, _ in subs) or
                          connects[conn] < reg_t and ended(conn) is not None,
                          "C18 a channel registered while connected gets subscribed on the live connection",
                          info=(conn, lname, subs))
    # re-subscription on the live connection after a listen key expiry
    if client == "binance":
        for conn in range(len(connects)):
            exp = [r for r in log if r[0] == conn and r[1] == "delivered" and r[2][0] == "frame" and
                   r[2][1].get("data", {}).get("e") == "listenKeyExpired"]
            if not exp:
                continue
            t_exp = exp[0][3]
            i_exp = log.index(exp[0])
            end_t = ended(conn)
            if end_t is not None and end_t < t_exp + 1.0:
                continue
            # was the expiry addressed to a stream this connection had actually subscribed? (observed, not scripted)
            subs = subscribed_streams(conn)
            if not any(s == exp[0][2][1]["stream"] and t <= t_exp for s, t in subs):
                continue
            ctx.cover("a listen key expired on a live connection")
            again = [r for r in log[i_exp + 1:] if r[0] == conn and r[1] == "sent" and r[2].get("method") == "SUBSCRIBE"
                     and any(str(p_).startswith("LK") for p_ in r[2]["params"]) and r[3] <= t_exp + 1.0]
            ctx.prove(bool(again), "C18 a channel flagged for re-subscription (expired listen key) is re-subscribed on "
                                   "the live connection without waiting for a reconnect", info=(conn, subs, t_exp))
    # routing
    delivered = {"A": 0, "B": 0}
    for rec in log:
        if rec[1] == "delivered" and rec[2][0] == "frame":
            m = rec[2][1]
            subs_before = [s for c in range(len(connects)) for s, t in subscribed_streams(c) if t <= rec[3]]
            if client == "binance":
                if m.get("stream") == "btcusdt@trade":
                    delivered["A"] += 1
                elif str(m.get("stream", "")).startswith("LK") and m["stream"] in subs_before:
                    delivered["B"] += 1
            else:
                if m.get("channel") == "live_trades_btcusd" + suffix and m.get("event") == "trade":
                    delivered["A"] += 1
                elif m.get("channel") == "order_book_btcusd" + suffix and m.get("event") == "data":
                    delivered["B"] += 1
    if client == "bitstamp_private":
        # the private client registers base names; messages carry the user-id suffixed channel (not routable by name):
        # only assert that nothing is mis-routed
        for key in "AB":
            ctx.prove(len(out["srcs"][key].received) <= delivered[key], "C18 a channel message produces events only on "
                                                                         "its channel's event source")
    else:
        for key in "AB":
            if delivered[key]:
                ctx.cover("a channel message was routed")
            ctx.prove(len(out["srcs"][key].received) == delivered[key],
                      "C18 each channel message produces events on the event source registered for that channel and "
                      "only there", info=(key, len(out["srcs"][key].received), delivered[key]))
    # keep-alive of the listen key
    if client == "binance":
        subs_all = [(c, s, t) for c in range(len(connects)) for s, t in subscribed_streams(c) if s.startswith("LK")]
        if subs_all:
            first = min(t for _, _, t in subs_all)
            T = out["end"] - first
            kas = [r for r in log if r[0] == "api"]
            due = int(T // 2) - 1
            if due >= 1:
                ctx.cover("a keep-alive was due")
                ctx.prove(len(kas) >= due, "C18 a subscribed user-data listen key is refreshed at least once per "
                                           "keep-alive period", info=(len(kas), T))


def jobs(tier):
    s1, s2 = (2, 1) if tier == "quick" else (3, 1)
    big = dict(split=100, max_paths=1000000, validate_every=100, sample_every=200)
    return [Job("binance", "scenario", dict(client="binance", steps1=s1, steps2=s2), **big),
            Job("bitstamp public", "scenario", dict(client="bitstamp_public", steps1=s1, steps2=s2), **big),
            Job("bitstamp private", "scenario", dict(client="bitstamp_private", steps1=s1, steps2=s2), **big)]

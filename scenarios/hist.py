"""Bounded operation histories over the real backtesting Exchange (shared by C01, C02, C05, C06, C07, C08).

Plans (every order class = kind x side; amounts from a solver-chosen set; prices, balances, OHLCV symbolic):
  single : bar0, order, bar1, then {bar2 | cancel + bar2'}            one order living through up to two bars
  pair   : bar0, order1, order2 (class from `second`), bar1, cancel the survivors, bar2   two orders in one bar
  loans  : (margin lending) bar0, loan, order with auto-borrow/auto-repay flags, bar1, repay, bar2
  cross  : two pairs sharing the quote symbol: bar0 of each, an order on each, bar1 of each
  loan_only : (margin lending) bar0, loan, bar1, repay, repay again, order
"""
from decimal import Decimal

from symx.core import Abort
from symx.run import Job

from . import exch
from .exch import BUY, SELL, KINDS, World

SECOND = {
    "compete": [("limit", "buy"), ("market", "buy"), ("limit", "sell"), ("stop", "sell")],
    "all": [(k, s) for k in KINDS for s in ("buy", "sell")],
    "market_sell": [("market", "sell")],
    "fok": [("market", "buy"), ("market", "sell"), ("stop", "sell")],
}


def _side(s):
    return None if s is None else (BUY if s == "buy" else SELL)


def history(ctx, props=(), plan="single", kind=None, side=None, second="compete", depth=3, auto_borrow=None,
            auto_repay=None, loan_symbol=None, second_auto_borrow=False, loan_extra_decimals=0, double_bar=False,
            **cfg):
    w = World(ctx, props=props, **cfg)
    b, pre = w.feed_bar("b0")
    w.check("bar0", pre, b)
    if plan == "single":
        o1 = w.place("o1", kind=kind, side=_side(side))
        w.check("place1")
        b, pre = w.feed_bar("b1")
        w.check("bar1", pre, b)
        if double_bar:
            b, pre = w.feed_bar("b1x", advance=False)
            w.check("bar1 again (second source, same instant)", pre, b)
        if depth >= 3:
            if ctx.flag("then_cancel"):
                if o1 is None:
                    raise Abort()
                w.cancel(o1)            # may legitimately fail when the order is already closed
                w.check("cancel1")
                b, pre = w.feed_bar("b2")
                w.check("bar2 after cancel", pre, b)
            else:
                b, pre = w.feed_bar("b2")
                w.check("bar2", pre, b)
    elif plan == "pair":
        o1 = w.place("o1", kind=kind, side=_side(side))
        w.check("place1")
        k2, s2 = ctx.pick("o2_class", SECOND[second])
        o2 = w.place("o2", kind=k2, side=_side(s2), auto_borrow=second_auto_borrow)
        w.check("place2")
        b, pre = w.feed_bar("b1")
        w.check("bar1", pre, b)
        if depth >= 3:
            for o in (o1, o2):
                if o is not None and w.info(o).is_open:
                    w.cancel(o)
            w.check("cancel survivors")
            b, pre = w.feed_bar("b2")
            w.check("bar2 after cancels", pre, b)
    elif plan == "cross":
        # two traded pairs sharing the quote symbol: an order on each, a bar of each (the first bar of the second pair
        # arrives only now), then the survivors are cancelled
        b, pre = w.feed_bar("b0e", pair_idx=1)
        w.check("bar0 of the second pair", pre, b)
        o1 = w.place("o1", kind=kind, side=_side(side), pair_idx=0)
        w.check("place1")
        k2, s2 = ctx.pick("o2_class", SECOND[second])
        o2 = w.place("o2", kind=k2, side=_side(s2), pair_idx=1)
        w.check("place2 (second pair)")
        b, pre = w.feed_bar("b1", pair_idx=0)
        w.check("bar1 of the first pair", pre, b)
        b, pre = w.feed_bar("b1e", pair_idx=1)
        w.check("bar1 of the second pair", pre, b)
        if depth >= 3:
            for o in (o1, o2):
                if o is not None and w.info(o).is_open:
                    w.cancel(o)
            w.check("cancel survivors")
    elif plan == "loans":
        l1 = w.create_loan("l1", symbol=loan_symbol, extra_decimals=loan_extra_decimals)
        w.check("loan1")
        o1 = w.place("o1", kind=kind, side=_side(side),
                     auto_borrow=ctx.flag("o1_auto_borrow") if auto_borrow is None else auto_borrow,
                     auto_repay=ctx.flag("o1_auto_repay") if auto_repay is None else auto_repay)
        w.check("place1")
        b, pre = w.feed_bar("b1")
        w.check("bar1", pre, b)
        if depth >= 3:
            op = ctx.choice("op3", 3)
            if op == 0 and l1 is not None:
                w.repay(l1)
                w.check("repay1")
                w.repay(l1)                 # repaying twice must fail and change nothing
                w.check("repay1 again")
            elif op == 1 and o1 is not None:
                w.cancel(o1)
                w.check("cancel1")
            else:
                w.create_loan("l2")
                w.check("loan2")
            b, pre = w.feed_bar("b2")
            w.check("bar2", pre, b)
    elif plan == "loan_only":
        # a loan living through a bar (interest accrues), then two repayment attempts
        l1 = w.create_loan("l1", symbol=loan_symbol)
        w.check("loan1")
        b, pre = w.feed_bar("b1")
        w.check("bar1", pre, b)
        if l1 is not None:
            w.repay(l1)
            w.check("repay1")
            w.repay(l1)
            w.check("repay1 again")
        w.place("o1", kind="limit", side=BUY)
        w.check("place1")
    else:
        raise ValueError(plan)
    ctx.cover("end of history")


def jobs_for(props, plans, max_paths=80000, validate_every=60):
    """plans: list of dict(plan=..., depth=..., cfg...) ; one job per (plan, order class)"""
    js = []
    for p in plans:
        p = dict(p)
        kinds = p.pop("kinds", KINDS)
        sides = p.pop("sides", ("buy", "sell"))
        split = p.pop("split", 0)
        for kind in kinds:
            for side in sides:
                name = "%s %s %s %s" % (p["plan"], kind, side,
                                        " ".join("%s=%s" % kv for kv in sorted(p.items()) if kv[0] != "plan"))
                js.append(Job(name, "history", dict(props=list(props), kind=kind, side=side, **p),
                              max_paths=max_paths, validate_every=validate_every, sample_every=300, split=split))
    return js


VOLS = ["0", "10", "127.83333333", "100000"]
CLOSES = ["100", "31234.56"]


def standard_plans(tier, borrow_limit_orders=True):
    ps = [
        dict(plan="single", depth=3, bp=8, qp=2),
        dict(plan="single", depth=2, bp=0, qp=2),
        dict(plan="single", depth=2, bp=8, qp=2, liq="vsi", vols=VOLS),
        dict(plan="pair", depth=2, bp=8, qp=2, namounts=1),
    ]
    for ab in (False, True):
        for ar in (False, True):
            for lsym in ("USD", "BTC"):
                kinds = ["limit", "market"] if (borrow_limit_orders or not ab or tier == "thorough") else ["market"]
                ps.append(dict(plan="loans", depth=2, bp=8, qp=2, lend="margin", namounts=1, closes=CLOSES,
                               kinds=kinds, auto_borrow=ab, auto_repay=ar, loan_symbol=lsym))
    # the second of two loans of an auto-borrow order failing (no lending conditions for the quote symbol): rollback
    ps.append(dict(plan="loans", depth=2, bp=8, qp=2, lend="margin_base_only", namounts=2, closes=CLOSES,
                   kinds=["limit", "market"], sides=["sell"], auto_borrow=True, auto_repay=False, loan_symbol="BTC",
                   min_fee="5"))
    # two traded pairs sharing the quote symbol
    ps.append(dict(plan="cross", depth=2, npairs=2, bp=8, qp=2, namounts=1, kinds=["limit", "market"]))
    # a quote precision of 0 (whole units only)
    ps.append(dict(plan="single", depth=2, bp=2, qp=0, kinds=["market", "limit"]))
    # two bar events of one pair for the same instant, each granting its own liquidity (partial fills on both)
    ps.append(dict(plan="single", depth=2, bp=0, qp=2, liq="vsi", vols=["10"], namounts=3, kinds=["limit"],
                   double_bar=True))
    # a loan, a bar (interest accrues), two repayment attempts
    for lsym in ("USD", "BTC"):
        ps.append(dict(plan="loan_only", depth=2, bp=8, qp=2, lend="margin", namounts=1, closes=CLOSES,
                       kinds=["limit"], sides=["buy"], loan_symbol=lsym, min_interest="0.01"))
    if tier == "thorough":
        # sized by measurement (SYMX_JOBLOG): a full product of depth-3 plans x 8 order classes x all loan flag
        # combinations did not finish within 45 minutes; the thorough tier adds the depth-3 plans below to the quick ones
        ps += [
            dict(plan="single", depth=3, bp=8, qp=2, fee="none", kinds=["market", "limit"]),
            dict(plan="single", depth=3, bp=2, qp=0, fee="pct", kinds=["market", "limit"]),
            # (depth-3 histories under VolumeShareImpact and depth-3 pair plans are run by the checks whose subject they
            # are - C05 / C06 / C08 extras - their cost in every history check did not fit the thorough budget)
            dict(plan="cross", depth=3, npairs=2, bp=8, qp=2, namounts=1, kinds=["stop", "stop_limit"]),
        ]
        for lsym in ("USD", "BTC"):
            ps.append(dict(plan="loans", depth=3, bp=8, qp=2, lend="margin", namounts=1, closes=CLOSES,
                           kinds=["market"], auto_borrow=False, auto_repay=False, loan_symbol=lsym,
                           min_interest="0.01", split=16))
        # (measured: depth-3 loans histories of limit orders with auto-borrow have a few sub-trees that run for 15-40 CPU
        # minutes each; they are left to the depth-2 plans of the quick tier)
    return ps


BOUNDS_QUICK = (
    "plans: single (1 order of each of the 8 classes, bar, then {second bar | cancel + bar}) at precisions (8,2) "
    "[depth 3], (0,2) [depth 2] and (2,0) [depth 2, market and limit orders]; single depth 2 under VolumeShareImpact(25 %, 10 %) with solver-chosen volumes "
    "{0, 10, 127.83333333, 100000}; pair (2 orders in one bar, second from {limit buy, market buy, limit sell, stop "
    "sell}); loans (margin lending, requirement 0.5, 7 %/day interest in USD: loan in USD or BTC, limit/market order "
    "with each auto-borrow/auto-repay combination, bar; closes from {100, 31234.56}); rollback plan (lending "
    "conditions for base symbols only); double-bar plan (a second bar event of the same pair for the same instant, "
    "VolumeShareImpact, limit orders, 3 amounts); loan_only plan (loan, bar, repay, repay again, limit buy; minimum "
    "interest 0.01); percentage fee 0.25 % with minimum 0.05")
BOUNDS_THOROUGH = (
    "quick plans plus depth-3 histories: fee schemes none / percentage without minimum at precisions (8,2) / (2,0) "
    "(market and limit orders), loans "
    "at depth 3 (repay twice | cancel | second loan, then a bar; market orders without flags) with minimum interest "
    "0.01, cross plan at depth 3 with stop / stop-limit orders")
BASE_OUTSIDE = ["histories deeper than the stated plans", "more than two traded pairs per history in this check "
                "(C03 runs three pairs through the whole dispatcher stack)", "Decimal context rounding at 28 digits"]
BASE_ASSUMPTIONS = [
    "exact decimal arithmetic: inputs are bounded (balances <= 1e12 units, prices <= 1e9 units of quote precision, "
    "volumes <= 1e12 units of 1e-8) so that no intermediate of the checked code exceeds Decimal's 28 digit context "
    "except true divisions, where the model is the exact rational",
    "bars are valid (low <= open, close <= high; invalid input is C19's subject) and prices are >= one quote unit",
    "order amounts in multi-step histories come from a solver-chosen set (one base-unit multiple, 2.5 / 3, 1000); "
    "prices, balances, OHLCV are fully symbolic",
    "operations are issued between bars with the dispatcher clock at the last bar's event time, bars one day apart",
]
BASE_STUBS = [
    "uuid.uuid4 -> deterministic counter (ids never feed branches)",
    "max/min inside basana.backtesting.{orders,order_mgr,fees,liquidity,lending.margin} -> If-merging versions "
    "(identical results on ordinary values; symbolic mode only)",
    "bars are delivered through Exchange._on_bar_event with dispatcher._last_dt set as _dispatch_events does "
    "(the dispatcher loop itself is covered by C03/C12/C13)",
]

"""C05 Order lifecycle is a monotone state machine mirrored by order events."""
from . import hist
from .hist import history  # noqa: F401  (resolved by the runner)

PROPS = ["C05"]
META = dict(
    module="scenarios.c05_lifecycle", level="model_checking",
    bounds=dict(quick=hist.BOUNDS_QUICK + "; two orders competing for one bar's liquidity (second one fill-or-kill); a "
                "limit / stop-limit order over three bars under VolumeShareImpact with volumes {10, 100000} (partial "
                "fill, then a liquid bar); inductive re-index step with a symbolic traversal counter",
                thorough=hist.BOUNDS_THOROUGH),
    stubs=hist.BASE_STUBS, assumptions=hist.BASE_ASSUMPTIONS, outside=hist.BASE_OUTSIDE,
    required_covers=["end of history", "an order was accepted", "a request was rejected: place"],
)


def jobs(tier):
    return hist.jobs_for(PROPS, hist.standard_plans(tier)) + extra_jobs(tier)


def reindex(ctx, norders=3):
    """Inductive step over the periodic re-indexing of the open-order list: the container's traversal counter is an
    arbitrary (symbolic) value, so 'however long the history' is covered by one step from any reachable state.
    Prices are concrete here (the subject is the container, not the arithmetic)."""
    from decimal import Decimal
    from .exch import World, BUY, SELL, run
    from symx import Implies
    init = {"USD": Decimal(10 ** 9), "BTC": Decimal(10 ** 6), "ETH": Decimal(10 ** 6)}
    w = World(ctx, props=["C05"], npairs=2, bp=8, qp=2, fee="none", namounts=1, init=init)
    FLAT = ("100", "101", "99", "100")
    w.feed_bar("b0", pair_idx=0, ohlc=FLAT)
    w.feed_bar("b0e", pair_idx=1, ohlc=FLAT)
    oids = []
    for i in range(norders):
        pidx = ctx.choice("order%d_pair" % i, 2)
        side = BUY if i % 2 == 0 else SELL
        oid = w.place("o%d" % i, kind="limit", side=side, pair_idx=pidx, price="50" if side == BUY else "200")
        oids.append(oid)
    w.check("orders placed")
    cont = w.e._order_mgr._orders
    cont._reindex_counter = ctx.int("reindex_counter", 0, 10 ** 9)
    if ctx.flag("cancel_one_first"):
        w.cancel(oids[0])
        w.check("cancel before traversal")
    # traversals through the real call sites: bars of either pair and listings, in a solver-chosen order
    for n in range(3):
        what = ctx.choice("traversal%d" % n, 3)
        if what == 2:
            run(w.e.get_open_orders())
            w.check("listing %d" % n)
        else:
            b, pre = w.feed_bar("t%d" % n, pair_idx=what, ohlc=FLAT)
            w.check("bar %d" % n, pre, b)
    # every order still open must still be reachable by the matching engine: bars that cross every limit
    for pidx in (0, 1):
        b, pre = w.feed_bar("final%d" % pidx, pair_idx=pidx, ohlc=("100", "300", "10", "100"))
        bal, by_id, deltas = w.check("final bar %d" % pidx, pre, b)
        for oid in oids:
            st = w.orders[oid]
            if st["pair"] != w.pairs[pidx] or not pre[oid].is_open:
                continue
            ctx.prove(by_id[oid].amount_filled == st["amount"],
                      "C05 an open order keeps being processed by later bars however long the history (re-indexing "
                      "never loses it)")
    ctx.cover("end of history")


def extra_jobs(tier):
    from symx.run import Job
    n = 3 if tier == "quick" else 4
    # two orders competing for one bar's limited liquidity (fill-or-kill orders must still be closed by their first bar)
    ps = [dict(plan="pair", depth=2, bp=0, qp=2, liq="vsi", vols=["0", "10"], namounts=2, kinds=["limit"],
               second="fok"),
          # a limit / stop-limit order filled in part on one bar and completed (never over-filled) on a later, liquid one
          dict(plan="single", depth=3, bp=0, qp=2, liq="vsi", vols=["10", "100000"], namounts=1,
               kinds=["limit", "stop_limit"])]
    return hist.jobs_for(PROPS, ps) + [
        Job("reindex inductive step %d orders" % n, "reindex", dict(norders=n), max_paths=2000000, split=200,
            validate_every=200, sample_every=400)]

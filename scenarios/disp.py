"""Whole-stack scenarios for the backtesting dispatcher (C12 order / exactly-once, C13 scheduled jobs).

The real BacktestingDispatcher runs on a real asyncio loop.  Event and job times are SymDT (z3 Int microseconds),
max_concurrent is a SymInt: `evnt.when <= max_dt`, heapq's __lt__ calls and `len(tasks) >= max_size` fork on them, so
every relative order of the timestamps and every pool saturation pattern within the bounds is a path.
"""
import asyncio
import datetime
import functools
import itertools

import basana as bs
from basana.core import dispatcher as disp_mod, event

from symx import And, Implies, Not, Or
from symx.core import Abort, HarnessError
from symx.run import Job

T0 = datetime.datetime(2020, 1, 1, tzinfo=datetime.timezone.utc)
T_HI = T0 + datetime.timedelta(days=30)


class Ev(event.Event):
    def __init__(self, when, name):
        super().__init__(when)
        self.name = name


class Boom(Exception):
    pass


PROFILES = [
    {},                                                         # nobody suspends, nobody raises
    {"h0a": (1, False), "h1a": (0, False), "pre": (0, False)},  # first handler of source 0 suspends once
    {"pre": (2, False), "h0b": (0, True)},                      # front runner suspends twice, a handler raises
    {"h0a": (2, True), "hd": (1, False)},                       # suspending handler raises, derived handler suspends
    {"post": (1, True), "h1a": (1, False), "h2a": (2, False)},  # trailing sniffer raises after suspending
    {"h0a": (1, False), "h0b": (2, False), "h1a": (1, True), "hd": (0, True)},
    {"h0a": (3, False), "h1a": (4, True), "pre": (3, False)},   # long handlers (3-4 suspension points)
    {"h0a": (4, False), "h0b": (0, True)},                      # a handler raises while its sibling is suspended
]


class Monitor:
    def __init__(self, d):
        self.d = d
        self.trace = []      # (seq, kind, subject, handler, phase, now)

    def rec(self, kind, subject, handler, phase):
        self.trace.append((len(self.trace), kind, subject, handler, phase, self.d.now()))


class CallableHandler:
    """an event handler that is an object with `async def __call__` (no __name__ / __qualname__)"""
    def __init__(self, fn):
        self.fn = fn
        self.hname = fn.hname

    async def __call__(self, ev):
        return await self.fn(ev)


class MethodHandler:
    """the handler is a bound method: `obj.on_event` evaluates to a new (equal, not identical) object every time"""
    def __init__(self, fn):
        self.fn = fn

    async def on_event(self, ev):
        return await self.fn(ev)


def again(handler):   # noqa: E302
    """the same handler as a strategy would name it a second time (a bound method is looked up afresh)"""
    if getattr(handler, "__self__", None) is not None and isinstance(handler.__self__, MethodHandler):
        return handler.__self__.on_event
    return handler


def hname(handler):
    if hasattr(handler, "hname"):
        return handler.hname
    return handler.__self__.fn.hname


def make_handler(mon, name, nsusp, raises, extra=None, kind=0):
    if kind:
        h = make_handler(mon, name, nsusp, raises, extra)
        if kind == 3:
            return MethodHandler(h).on_event
        if kind == 4:
            # a plain callable returning an awaitable that is not a coroutine (a Task)
            def returns_task(ev):
                return asyncio.ensure_future(h(ev))
            returns_task.hname = name
            return returns_task
        if kind == 1:
            async def with_tag(tag, ev):
                return await h(ev)
            p = functools.partial(with_tag, "tag")
            p.hname = name
            return p
        return CallableHandler(h)

    async def handler(ev):
        mon.rec("event", ev, name, "start")
        if extra is not None:
            extra(ev)
        for _ in range(nsusp):
            await asyncio.sleep(0)
            mon.rec("event", ev, name, "step")
        mon.rec("event", ev, name, "end")
        if raises:
            raise Boom(name)
    handler.__name__ = name
    handler.hname = name
    return handler


def run_dispatcher(d):
    loop = asyncio.new_event_loop()
    try:
        asyncio.set_event_loop(loop)
        loop.run_until_complete(d.run(stop_signals=[]))
    finally:
        asyncio.set_event_loop(None)
        loop.close()


def scenario(ctx, props=("C12",), nsrc=2, nev=2, njobs=0, max_mc=3, derived=True, sniffers=True, dup=True,
             susp=True, raising=True, job_from_handler=False, job_from_job=False, raising_job=False,
             handler_kinds=False, job_perms=True, job_zones=False):
    P = set(props)
    # what kind of callable the handlers are: plain coroutine functions, functools.partial objects, callable instances,
    # bound methods, plain callables returning a Task
    hkind = ctx.choice("handler_callable_kind", 5) if handler_kinds else 0
    mc = ctx.int("max_concurrent", 1, max_mc)
    d = bs.backtesting_dispatcher(max_concurrent=mc)
    mon = Monitor(d)
    # ---- sources with symbolic, per-source non-decreasing times (the property's premise)
    sources, events = [], []
    for s in range(nsrc):
        evs, prev = [], None
        for i in range(nev):
            t = ctx.dt("t_%d_%d" % (s, i), T0, T_HI)
            if prev is not None:
                ctx.assume(t >= prev)
            prev = t
            evs.append(Ev(t, "s%de%d" % (s, i)))
        sources.append(event.FifoQueueEventSource(events=evs))
        events.append(evs)
    derived_src = event.FifoQueueEventSource() if derived else None
    derived_events = []
    # ---- handlers
    expected = {}       # (source index | "derived") -> ordered handler names
    nsusp_of = {}

    # suspension / failure pattern of the handlers: one solver-chosen profile (independent choices per handler
    # would multiply the path count by 6 per handler)
    profile = PROFILES[ctx.choice("handler_profile", len(PROFILES))] if (susp or raising) else {}

    def mk(name, extra=None):
        n, r = profile.get(name, (0, False))
        n = n if susp else 0
        r = r if raising else False
        nsusp_of[name] = n
        return make_handler(mon, name, n, r, extra, kind=hkind)

    def forward(ev):
        fe = Ev(ev.when, "fwd:" + ev.name)
        derived_events.append(fe)
        derived_src.push(fe)

    jobs = []           # dict(name, when, scheduled_seq, from)

    def schedule_job(name, when, raises=False, nsusp=0, then=None):
        j = dict(name=name, when=when, scheduled_at=len(mon.trace), raises=raises,
                 clock_at_schedule=(d.now() if d.now_available else None))
        jobs.append(j)

        async def job():
            mon.rec("job", j, name, "start")
            if then is not None:
                then()
            for _ in range(nsusp):
                await asyncio.sleep(0)
            mon.rec("job", j, name, "end")
            if raises:
                raise Boom(name)

        def job_raising_when_called():
            # a job that is not a coroutine function and fails before it returns anything awaitable
            mon.rec("job", j, name, "start")
            mon.rec("job", j, name, "end")
            raise Boom(name)
        if raises == "call":
            job = job_raising_when_called          # noqa: F811
        if job_zones:
            # the same instant named in another time zone (UTC, UTC+2, UTC-3), one choice per job
            h = [0, 2, -3][ctx.choice("zone_of_" + name, 3)]
            if h:
                when = when.astimezone(datetime.timezone(datetime.timedelta(hours=h)))
        d.schedule(when, job)
        return j

    late_job = {}

    def maybe_schedule_from_handler(ev):
        if job_from_handler and "h" not in late_job:
            # a job scheduled while handling the first delivered event, for a symbolic later-or-equal time
            tj = ctx.dt("t_job_from_handler", T0, T_HI + datetime.timedelta(days=5))
            late_job["h"] = schedule_job("job_from_handler", tj)
            if job_from_handler == 2:
                # a second one from the same handler: both may be overdue (behind the clock), in either order
                tj2 = ctx.dt("t_job_from_handler2", T0, T_HI + datetime.timedelta(days=5))
                late_job["h2"] = schedule_job("job_from_handler2", tj2)

    for s in range(nsrc):
        names = []
        h_a = mk("h%da" % s, extra=(forward if (derived and s == 0) else None))
        d.subscribe(sources[s], h_a)
        names.append(hname(h_a))
        if s == 0:
            h_b = mk("h%db" % s, extra=maybe_schedule_from_handler)
            d.subscribe(sources[s], h_b)
            names.append(hname(h_b))
            if dup:
                d.subscribe(sources[s], again(h_a))       # duplicate subscription: must be ignored
        expected[s] = names
    if derived:
        h_d = mk("hd")
        d.subscribe(derived_src, h_d)
        expected["derived"] = [hname(h_d)]
    pre, post = [], []
    if sniffers:
        hp = mk("pre")
        d.subscribe_all(hp, front_run=True)
        pre.append(hname(hp))
        hq = mk("post")
        d.subscribe_all(hq)
        post.append(hname(hq))
        if dup:
            d.subscribe_all(again(hq))
    # ---- jobs scheduled before the run, in a solver-chosen insertion order
    if njobs:
        tjs = [ctx.dt("t_job%d" % i, T0 - datetime.timedelta(days=2), T_HI + datetime.timedelta(days=5))
               for i in range(njobs)]
        perms = list(itertools.permutations(range(njobs)))
        # (with symbolic times every relative order of the times is covered whatever the insertion order: the
        # permutation choice matters for the tie-breaking among equal times and is dropped for long job lists)
        perm = perms[ctx.choice("job_insertion_order", len(perms))] if job_perms else perms[0]
        for i in perm:
            then = None
            if job_from_job and i == 0:
                def then():
                    if "j" not in late_job:
                        tj = ctx.dt("t_job_from_job", T0, T_HI + datetime.timedelta(days=8))
                        late_job["j"] = schedule_job("job_from_job", tj)
            schedule_job("job%d" % i, tjs[i], raises=(raising_job if i == 1 else False), then=then)

    run_error = None
    try:
        run_dispatcher(d)
    except Boom as ex:
        run_error = ex
    ctx.prove(run_error is None, "%s an exception in a handler or job never makes the run fail" % sorted(P)[0],
              info=repr(run_error))

    # =============================================================== oracle over the observed trace
    tr = mon.trace
    all_events = [e for evs in events for e in evs] + derived_events
    src_of = {}
    for s, evs in enumerate(events):
        for e in evs:
            src_of[id(e)] = s
    for e in derived_events:
        src_of[id(e)] = "derived"

    def recs(subject, handler=None, phase=None):
        return [r for r in tr if r[2] is subject and (handler is None or r[3] == handler) and
                (phase is None or r[4] == phase)]

    if "C12" in P:
        # exactly once, to every handler subscribed to its source and to every catch-all handler
        for e in all_events:
            want = pre + expected[src_of[id(e)]] + post
            for h in want:
                ctx.prove(len(recs(e, h, "start")) == 1 and len(recs(e, h, "end")) == 1,
                          "C12 each event is delivered exactly once to each subscribed handler")
            got = {r[3] for r in recs(e)}
            ctx.prove(got <= set(want), "C12 an event reaches only handlers subscribed to its source")
            # the clock equals the event's time whenever one of its handlers runs
            for r in recs(e):
                ctx.prove(r[5] == e.when, "C12 dispatcher.now() equals the event time while its handler runs")
            # stage order
            src_h = expected[src_of[id(e)]]
            # (a handler that never ran was reported above; the stage order is asserted over those that did)
            if pre:
                last_pre = max([r[0] for r in recs(e) if r[3] in pre and r[4] == "end"], default=None)
                first_src = min([r[0] for r in recs(e) if r[3] in src_h and r[4] == "start"], default=None)
                if last_pre is not None and first_src is not None:
                    ctx.prove(last_pre < first_src,
                              "C12 front-running handlers finish before the source's handlers start")
            starts = [recs(e, h, "start")[0][0] for h in src_h if recs(e, h, "start")]
            ctx.prove(starts == sorted(starts), "C12 source handlers start in subscription order")
            if post:
                last_src = max([r[0] for r in recs(e) if r[3] in src_h and r[4] == "end"], default=None)
                first_post = min([r[0] for r in recs(e) if r[3] in post and r[4] == "start"], default=None)
                if last_src is not None and first_post is not None:
                    ctx.prove(last_src < first_post,
                              "C12 trailing catch-all handlers start after the source's handlers")
        # global time order over the whole trace, clock never moves backwards
        prev = None
        for r in tr:
            if prev is not None:
                ctx.prove(r[5] >= prev[5], "C12 dispatcher clock never moves backwards")
            prev = r
        ev_starts = [r for r in tr if r[1] == "event" and r[4] == "start"]
        for a, b in zip(ev_starts, ev_starts[1:]):
            ctx.prove(b[2].when >= a[2].when, "C12 events are delivered in globally non-decreasing time order")
        # per source FIFO order
        for s, evs in enumerate(events):
            firsts = [min(r[0] for r in recs(e)) for e in evs if recs(e)]
            ctx.prove(firsts == sorted(firsts), "C12 events of one source are delivered in source order")
        # events with different times never overlap
        for a in all_events:
            for b in all_events:
                if a is b or not recs(a) or not recs(b):
                    continue
                a_end = max(r[0] for r in recs(a))
                b_start = min(r[0] for r in recs(b))
                ctx.prove(Implies(a.when < b.when, a_end < b_start),
                          "C12 all handlers of an earlier event finish before a later event starts")
        if derived:
            ctx.prove(len(derived_events) == len(events[0]), "C12 one forwarded event per primary event")
    if "C13" in P:
        last_ev_end = max([r[0] for r in tr if r[1] == "event"] or [-1])
        for j in jobs:
            st = recs(j, phase="start")
            if j["scheduled_at"] <= last_ev_end + 1 or not all_events:
                ctx.prove(len(st) == 1, "C13 every job scheduled no later than the last event runs exactly once "
                                         "(%s)" % j["name"])
            else:
                ctx.prove(len(st) <= 1, "C13 no job runs twice")
            if not st:
                continue
            ctx.prove(st[0][5] >= j["when"], "C13 a job runs with the clock at or after its scheduled time")
            j_start = st[0][0]
            j_end = max(r[0] for r in recs(j))
            for e in all_events:
                if not recs(e):
                    continue
                e_start = min(r[0] for r in recs(e))
                e_end = max(r[0] for r in recs(e))
                if j["scheduled_at"] <= e_start:
                    # (a job scheduled for the past cannot run before events of the instant it was scheduled in)
                    later = j["when"] < e.when
                    if j["clock_at_schedule"] is not None:
                        later = And(later, j["clock_at_schedule"] < e.when)
                    ctx.prove(Implies(later, j_end < e_start), "C13 a job runs before every event with a later time")
                ctx.prove(Implies(e.when < j["when"], e_end < j_start),
                          "C13 a job runs after every event with an earlier time")
        for a in jobs:
            for b in jobs:
                if a is b:
                    continue
                sa, sb = recs(a, phase="start"), recs(b, phase="start")
                if not sa or not sb:
                    continue
                both_known = max(a["scheduled_at"], b["scheduled_at"]) <= min(sa[0][0], sb[0][0])
                if both_known:
                    ctx.prove(Implies(a["when"] < b["when"], sa[0][0] < sb[0][0]),
                              "C13 jobs run in non-decreasing scheduled-time order")
        prev = None
        for r in tr:
            if prev is not None:
                ctx.prove(r[5] >= prev[5], "C13 dispatcher clock never moves backwards")
            prev = r
        # a failing job / handler does not prevent the others
        for e in all_events:
            ctx.prove(len(recs(e, phase="start")) >= 1, "C13 every event is still delivered when jobs fail")
    if any(r[1] == "job" for r in tr):
        ctx.cover("a job ran")
    if len(tr) > 2:
        ctx.cover("events were delivered")
    ctx.cover("run completed")

"""C02 Solvency: no negative balances; borrowed equals open loan principal."""
from . import hist
from .hist import history  # noqa: F401  (resolved by the runner)

PROPS = ["C02"]
META = dict(
    module="scenarios.c02_solvency", level="model_checking",
    bounds=dict(quick=hist.BOUNDS_QUICK, thorough=hist.BOUNDS_THOROUGH),
    stubs=hist.BASE_STUBS, assumptions=hist.BASE_ASSUMPTIONS, outside=hist.BASE_OUTSIDE,
    required_covers=["end of history", "an order was accepted", "a request was rejected: place"],
)


def jobs(tier):
    return hist.jobs_for(PROPS, hist.standard_plans(tier)) + extra_jobs(tier)


def extra_jobs(tier):
    # loan amounts finer than the symbol's precision (borrowed must still equal the open principal)
    ps = [dict(plan="loans", depth=2, bp=8, qp=2, lend="margin", namounts=1, closes=hist.CLOSES, kinds=["limit"],
               auto_borrow=False, auto_repay=ar, loan_symbol=ls, loan_extra_decimals=3)
          for ar in (False, True) for ls in ("USD", "BTC")]
    return hist.jobs_for(PROPS, ps)

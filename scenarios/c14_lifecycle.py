"""C14 Dispatcher lifecycle, fault isolation and bounded concurrency."""
from symx.run import Job
from .rt import lifecycle  # noqa: F401

META = dict(
    module="scenarios.c14_lifecycle", level="fault_enumeration",
    bounds=dict(
        quick="both dispatchers on a virtual-time asyncio loop; 2 producers x 3 events, 2 handlers per source (one "
              "raises on the first event), optional 2 scheduled jobs (one raises); fault script chosen by the solver: "
              "failing phase in {none, initialize, main, finalize} x failing producer x ending in {sources exhausted / "
              "idle stop, stop() from a handler, handler error with stop_on_handler_exceptions, external cancellation "
              "at 0 / 15 / 50 ms, stop() from another task at 5 / 15 / 50 ms (5 ms: a producer is still initialising), the same followed by a second stop() 10 ms later while the "
              "producers take 20 ms to finalise} x "
              "handler duration in {0, 30 ms, 5 s} x handlers and jobs as coroutine functions / functools.partial objects x the application installing its own log record factory between creating "
              "the dispatcher and run() (choice); "
              "max_concurrent symbolic in 1..3",
        thorough="adds 1 and 3 producers, max_concurrent up to 5"),
    stubs=["basana.core.dt.utc_now -> virtual clock", "VLoop", "logging disabled (the record factory is called "
           "directly to observe it)"],
    assumptions=["one fault per run", "every path corresponds to one fault script; the solver's contribution is the "
                 "feasibility-checked enumeration of the script variables and the symbolic max_concurrent"],
    outside=["OS signals (stop_signals=[])", "more than 3 producers"],
    required_covers=["run completed", "run raised the producer's error", "run was cancelled externally",
                     "a full run with failing handler and job completed",
                     "stop() was called again while the run was ending"],
)


def jobs(tier):
    big = dict(split=300, max_paths=2000000, validate_every=100, sample_every=200)
    js = [Job("backtesting", "lifecycle", dict(kind="backtesting", nprod=2), **big),
          Job("realtime", "lifecycle", dict(kind="realtime", nprod=2), **big)]
    if tier == "thorough":
        for n, mc in ((3, 3), (3, 5), (1, 2)):
            js.append(Job("backtesting %d producers max_mc=%d" % (n, mc), "lifecycle",
                          dict(kind="backtesting", nprod=n, max_mc=mc), **big))
            js.append(Job("realtime %d producers max_mc=%d" % (n, mc), "lifecycle",
                          dict(kind="realtime", nprod=n, max_mc=mc), **big))
    return js

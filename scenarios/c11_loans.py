"""C11 Loan lifecycle and interest."""
import datetime
from decimal import Decimal

import basana as bs
from basana.backtesting import errors, exchange as bex, fees, liquidity
from basana.backtesting.lending import margin
from basana.core import bar
from basana.core.pair import Pair, PairInfo

from symx import And, DecimalFactory, Implies, Not, Or, SymDec, smax, trunc
from symx.run import Job

from . import hist
from .exch import BUY, SELL, World, ZERO, run, T0, DAY, patch_minmax

PAIR = Pair("BTC", "USD")
META = dict(
    module="scenarios.c11_loans", level="model_checking",
    bounds=dict(
        quick="interest: one MarginLoans loan with symbolic principal, minimum interest, initial balance and elapsed "
              "time, interest symbol precision 2 or 0 (whole seconds up to 10 years; one job with microsecond resolution), interest 7 % per {1 day, 365 days, no period}, interest symbol equal "
              "to / different from the borrowed symbol (price from {100, 31234.56}); optionally a bar with the other price at the instant of "
              "inspection; query, repay, repay again, repay unknown id; auto-repay: 2 open loans in the symbol an auto-repay limit/market order acquires, symbolic "
              "principals and balances, one bar; the same with a limit order that trades in part under "
              "VolumeShareImpact (bar volume 4 or 10) and is then cancelled",
        thorough="3 open loans for the auto-repay clause, sub-second elapsed times (microseconds)"),
    stubs=hist.BASE_STUBS + ["the name Decimal in basana.backtesting.lending.margin -> factory that lets the symbolic "
                             "elapsed/period ratio through as an exact rational"],
    assumptions=hist.BASE_ASSUMPTIONS + ["the float ratio elapsed/period is modelled as the exact rational (binary "
                                          "rounding ~1e-16 relative is outside the claim)",
                                          "'as far as funds allow' = available balance covers principal and interest "
                                          "at the loan's turn"],
    outside=["more than 3 loans", "interest conditions changing while a loan is open"],
    required_covers=["a loan was repaid", "a repayment was refused for lack of funds", "the minimum interest applied",
                     "proportional interest applied", "an auto-repay order repaid a loan",
                     "an auto-repay order could not afford a loan",
                     "a partially filled auto-repay order was cancelled",
                     "the conversion price moved at the instant of inspection"],
)


def interest(ctx, same_symbol=True, period_days=365, sub_second=False):
    patch_minmax(ctx)
    ctx.patch(margin, "Decimal", DecimalFactory)
    d = bs.backtesting_dispatcher()
    # the interest symbol's precision (0 = whole units, e.g. JPY): a solver choice
    uprec = [2, 0][ctx.choice("interest_symbol_precision", 2)]
    usd0 = ctx.dec("usd0", uprec, lo=0, hi=10 ** 12)
    btc0 = ctx.dec("btc0", 8, lo=0, hi=10 ** 12)
    pct = Decimal("7")
    period = datetime.timedelta(days=period_days) if period_days else datetime.timedelta(0)
    mn = ctx.dec("min_interest", uprec, lo=0, hi=10 ** 6)
    cond = margin.MarginLoanConditions(interest_symbol="USD", interest_percentage=pct, interest_period=period,
                                       min_interest=mn, margin_requirement=Decimal("0"))
    e = bex.Exchange(d, {"USD": usd0, "BTC": btc0}, lending_strategy=margin.MarginLoans("USD", default_conditions=cond),
                     default_pair_info=PairInfo(8, 2), liquidity_strategy_factory=liquidity.InfiniteLiquidity)
    e.set_symbol_precision("USD", uprec)
    e.set_symbol_precision("BTC", 8)
    d._set_now(T0)
    price = Decimal(ctx.pick("close_choice", ["100", "31234.56"]))
    d._last_dt = T0
    run(e._on_bar_event(bar.BarEvent(T0, bar.Bar(T0 - DAY, PAIR, price, price, price, price, Decimal(10)))))
    sym = "USD" if same_symbol else "BTC"
    prec = 2 if same_symbol else 8
    a = ctx.dec("principal", prec, lo=1, hi=10 ** 10)
    try:
        loan = run(e.create_loan(sym, a))
    except errors.Error:
        ctx.prove(False, "C11 with a zero margin requirement a positive loan request is granted")
        return
    ctx.prove([loan.is_open, loan.borrowed_amount == a, loan.borrowed_symbol == sym], "C11 a new loan is open with the "
                                                                                       "requested principal")
    if sub_second:
        t1 = ctx.dt("t1", T0, T0 + datetime.timedelta(days=3650))
        secs_num, secs_den = None, None
        elapsed_us = t1 - T0
    else:
        secs = ctx.int("elapsed_seconds", 0, 10 * 365 * 86400)
        from symx.dt import SymDT, to_us
        from symx import lin as L
        if ctx.mode == "sym":
            t1 = SymDT(L.add(L.scale(L.lin(secs.e), 10 ** 6), L.lin(to_us(T0))))
        else:
            t1 = T0 + datetime.timedelta(seconds=secs)
    d._last_dt = t1
    info = run(e.get_loan(loan.id))
    out = info.outstanding_interest.get("USD", ZERO)
    if not same_symbol and ctx.flag("the_price_moves_at_the_instant_the_loan_is_inspected"):
        # a bar of the borrowed symbol's pair arrives at that very instant with another close: the interest reported
        # and charged from now on is converted at the new price
        price = Decimal("31234.56") if price == Decimal("100") else Decimal("100")
        run(e._on_bar_event(bar.BarEvent(t1, bar.Bar(t1 - DAY, PAIR, price, price, price, price, Decimal(10)))))
        info = run(e.get_loan(loan.id))
        out = info.outstanding_interest.get("USD", ZERO)
        ctx.cover("the conversion price moved at the instant of inspection")
    # reference: pct/100 * principal * elapsed/period, converted at the last close, at least the minimum, truncated
    raw = a * pct / Decimal(100)
    if period_days:
        if ctx.mode == "sym":
            el = (t1 - T0).total_seconds().as_dec()
        else:
            el = Decimal((t1 - T0).total_seconds())
        raw = raw * el / Decimal(period_days * 86400)
    if not same_symbol:
        raw = raw * price
    exp = trunc(smax(raw, mn), uprec)
    if ctx.mode == "sym":
        ctx.prove(out == exp, "C11 outstanding interest == truncated max(pct x principal x elapsed / period, minimum)")
    else:
        # concrete replay: the code multiplies by the binary64 ratio elapsed/period; the reference is evaluated with that
        # same double and with the exact rational, and either result is accepted (they differ only when the product sits
        # on a truncation boundary), instead of a flat one-cent tolerance that would hide one-cent defects
        cands = {exp}
        if period_days:
            el_s = (t1 - T0).total_seconds()
            r_float = Decimal(el_s / datetime.timedelta(days=period_days).total_seconds())
            raw_f = a * pct / Decimal(100) * r_float
            if not same_symbol:
                raw_f = raw_f * price
            cands.add(trunc(smax(raw_f, mn), uprec))
        ctx.prove(out in cands, "C11 outstanding interest == truncated max(pct x principal x elapsed / period, minimum)",
                  info=(out, sorted(cands)))
    ctx.prove([out >= 0, out >= trunc(mn, uprec)], "C11 interest is never negative and never below the minimum")
    if bool(raw < mn):
        ctx.cover("the minimum interest applied")
    else:
        ctx.cover("proportional interest applied")
    bal0 = run(e.get_balances())
    try:
        run(e.repay_loan(loan.id))
        ok = True
    except errors.Error:
        ok = False
    bal1 = run(e.get_balances())
    info1 = run(e.get_loan(loan.id))

    def avail(b, s):
        return b[s].available if s in b else ZERO

    def borrowed(b, s):
        return b[s].borrowed if s in b else ZERO
    if ok:
        ctx.cover("a loan was repaid")
        conds = [borrowed(bal1, sym) == 0, not info1.is_open, info1.paid_interest.get("USD", ZERO) == out]
        if same_symbol:
            conds.append(avail(bal1, "USD") == avail(bal0, "USD") - a - out)
        else:
            conds += [avail(bal1, "BTC") == avail(bal0, "BTC") - a, avail(bal1, "USD") == avail(bal0, "USD") - out]
        ctx.prove(conds, "C11 repaying debits exactly principal plus interest, closes the loan and records the interest "
                         "as paid")
        try:
            run(e.repay_loan(loan.id))
            ctx.prove(False, "C11 a closed loan cannot be repaid again")
        except errors.Error:
            pass
        bal2 = run(e.get_balances())
        ctx.prove([avail(bal2, s) == avail(bal1, s) for s in ("USD", "BTC")], "C11 a refused repayment changes nothing")
    else:
        ctx.cover("a repayment was refused for lack of funds")
        ctx.prove([avail(bal1, s) == avail(bal0, s) for s in ("USD", "BTC")] + [info1.is_open],
                  "C11 a refused repayment changes nothing")
        if same_symbol:
            short = avail(bal0, "USD") < a + out
        else:
            short = Or(avail(bal0, "BTC") < a, avail(bal0, "USD") < out)
        ctx.prove(short, "C11 a repayment is refused only when funds are short")
        # the refused repayment left the loan as it was: a second attempt is refused for the same reason, cleanly
        try:
            run(e.repay_loan(loan.id))
            ctx.prove(False, "C11 a repayment the account cannot afford is refused every time it is attempted")
        except errors.Error:
            pass
        info2 = run(e.get_loan(loan.id))
        bal2 = run(e.get_balances())
        ctx.prove([info2.is_open, info2.outstanding_interest.get("USD", ZERO) == out] +
                  [avail(bal2, s) == avail(bal0, s) for s in ("USD", "BTC")],
                  "C11 a refused repayment leaves the loan open with the same outstanding interest")
    try:
        run(e.repay_loan("no-such-loan"))
        ctx.prove(False, "C11 an unknown loan cannot be repaid")
    except errors.Error:
        pass


def auto_repay(ctx, nloans=2, kind="market", min_interest="0", partial_cancel=False):
    """An auto-repay buy order that traded: open loans in the acquired symbol are repaid largest first as far as funds
    allow; loans are closed only by that, never otherwise."""
    # partial_cancel: limited liquidity (25 % of a bar volume of 4 or 10), so that the order trades only in part and is
    # then cancelled - it still "traded", so the loans must be repaid when it closes
    cfg = dict(liq="vsi", vols=["4", "10"], namounts=1) if partial_cancel else dict(namounts=2)
    w = World(ctx, props=(), lend="margin", closes=["100", "31234.56"], margin_req="0", min_interest=min_interest,
              subscribe=False, fee="none", **cfg)
    w.feed_bar("b0")
    lids = []
    for n in range(nloans):
        lid = w.create_loan("loan%d" % n, symbol="BTC")
        if lid is None:
            ctx.prove(False, "C11 with a zero margin requirement a positive loan request is granted")
            return
        lids.append(lid)
    oid = w.place("o1", kind=kind, side=BUY, auto_repay=True)
    if oid is None:
        return
    before = w.snapshot()
    ctx.prove(sorted(before["open_loans"]) == sorted(lids), "C11 loans stay open until something repays them")
    w.feed_bar("b1")
    info = w.info(oid)
    if partial_cancel and info.is_open and bool(info.amount_filled > 0):
        ctx.cover("a partially filled auto-repay order was cancelled")
        w.cancel(oid)
        info = w.info(oid)
    after = w.snapshot()
    if info.is_open or not bool(info.amount_filled > 0):
        ctx.prove(sorted(after["open_loans"]) == sorted(lids),
                  "C11 loans are closed only by a repayment, an auto-repay order that traded, or a rolled back request")
        return
    # the order traded and closed: replay the documented greedy rule on the balances right after the fill
    loans = {l.id: l for l in run(w.e.get_loans())}
    bal = w.balances()
    # funds right after the fill = final funds + what the repayments took
    btc = bal["BTC"].available
    usd = bal["USD"].available
    for lid in lids:
        if not loans[lid].is_open:
            btc = btc + loans[lid].borrowed_amount
            usd = usd + loans[lid].paid_interest.get("USD", ZERO)
    order = sorted(lids, key=lambda i: _Key(w.loans[i]["amount"]), reverse=True)
    for lid in order:
        l = loans[lid]
        principal = w.loans[lid]["amount"]
        if l.is_open:
            interest = l.outstanding_interest.get("USD", ZERO)
            ctx.cover("an auto-repay order could not afford a loan")
            ctx.prove(Or(btc < principal, usd < interest),
                      "C11 when an auto-repay order closes, a loan in the acquired symbol stays open only if funds do not "
                      "allow repaying it at its turn (largest first)")
        else:
            ctx.cover("an auto-repay order repaid a loan")
            paid = l.paid_interest.get("USD", ZERO)
            ctx.prove(And(btc >= principal, usd >= paid), "C11 a loan is repaid only with funds the account has")
            btc = btc - principal
            usd = usd - paid
            ctx.prove(lid in info.loan_ids, "C11 a loan repaid by an order is associated with that order")


class _Key:
    """sort key that compares symbolic decimals (forks on the comparison)"""
    def __init__(self, v):
        self.v = v

    def __lt__(self, o):
        return bool(self.v < o.v)


def jobs(tier):
    js = []
    for same in (True, False):
        for pd in (1, 365, 0):
            js.append(Job("interest same_symbol=%s period=%sd" % (same, pd), "interest",
                          dict(same_symbol=same, period_days=pd), validate_every=5, sample_every=10,
                          prove_timeout=60000))
    for kind in ("market", "limit"):
        for mi in ("0", "0.01"):
            js.append(Job("auto-repay %s 2 loans min_interest=%s" % (kind, mi), "auto_repay",
                          dict(nloans=2, kind=kind, min_interest=mi), validate_every=30, sample_every=60,
                          max_paths=200000, split=64))
    for mi in ("0", "0.01"):
        js.append(Job("auto-repay limit order partially filled, then cancelled min_interest=%s" % mi, "auto_repay",
                      dict(nloans=2, kind="limit", min_interest=mi, partial_cancel=True), validate_every=30,
                      sample_every=60, max_paths=200000, split=64))
    js.append(Job("interest sub-second elapsed time", "interest", dict(same_symbol=True, period_days=1, sub_second=True),
                  validate_every=5, sample_every=10, prove_timeout=120000))
    if tier == "thorough":
        js.append(Job("auto-repay market 3 loans", "auto_repay", dict(nloans=3, kind="market"), validate_every=100,
                      sample_every=200, max_paths=2000000, split=200))
    return js

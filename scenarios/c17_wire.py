"""C17 Order parameters and exchange payloads cross the wire without loss."""
import ast
import datetime
import inspect
import os
import re
import time
import types
from decimal import Decimal

import z3

import basana as bs
from basana.core.pair import Pair
from basana.external.binance import exchange as bn_exchange, helpers as bn_helpers
from basana.external.bitstamp import exchange as bt_exchange, order_book as bt_order_book, orders as bt_orders, \
    trades as bt_trades

from symx import And, DecimalFactory, Implies, Not, Or, SymDec, SymInt
from symx.core import Ctx, HarnessError, SymBool
from symx.dt import SymDT
from symx.lin import Lin
from symx import lin as L
from symx.run import Job
from symx.strtok import SymStr

from .http_stub import StubSession, form_fields, run

BUY, SELL = bs.OrderOperation.BUY, bs.OrderOperation.SELL
PAIR = Pair("BTC", "USDT")
PLAIN_RE = re.compile(r"^[0-9]+(\.[0-9]+)?$")
UTC = datetime.timezone.utc

META = dict(
    module="scenarios.c17_wire", level="model_checking",
    bounds=dict(
        quick="encode: every order entry point of binance spot / cross margin / isolated margin accounts (market by "
              "amount and by quote amount, limit, stop-limit, OCO with and without stop-limit price) and of the bitstamp "
              "exchange (market, limit, instant), both operations; every decimal argument = symbolic coefficient in "
              "[1, 1e16) x 10^e with e from -14 .. +4 chosen by the solver (covers magnitudes 1e-12 .. 1e12, trailing "
              "zeros, positive exponents); the same entry points once more with the coefficient from 13 digit shapes "
              "(1, 3, 10, 30, 100, 3000, 10500, 29400, 1e6, 123456789, 999999999999, 1e15, 5e15+1) so that real strings "
              "reach the wire and are compared exactly; each with and without an earlier get_pair_info() call on the same "
              "exchange object (warm precision cache); decode: binance millisecond and bitstamp microsecond timestamp kernels over "
              "2010..2100, over the reals with symbolic integer timestamps AND for binary64 by a per-binade integer "
              "encoding of the two roundings (fpkernel), under a solver-chosen local time zone; payload wrappers (binance "
              "order / trades / balance, bitstamp order / balance) with symbolic numeric cells; binance "
              "streamed bitstamp trades / orders as JSON text (numbers + exact strings, 7 digit shapes); binance "
              "Account.get_order_info on all three accounts through the client stack for every documented order status",
        thorough="adds coefficients up to 1e28 with exponents -30 .. +12 on the main entry points, 4 trades in the "
                 "decode scenario"),
    stubs=["aiohttp.ClientSession -> recording stub passed through the clients' own session= parameter",
           "time.time in the client modules -> fixed value", "hmac left real (signature value irrelevant here)",
           "datetime.datetime.fromtimestamp inside the timestamp helpers -> exact real-arithmetic model (for the "
           "over-the-reals clause); the binary64 clause models CPython's _PyTime rounding (round half even) in integers",
           "the process's local time zone is a solver choice among the POSIX zones UTC0, JST-9, ART3 (TZ + time.tzset "
           "in both modes; fromtimestamp without tz is modelled as the naive local reading)"],
    assumptions=["str(Decimal) follows the General Decimal Arithmetic to-scientific-string rule (validated against the "
                 "real decimal module in the self-test of this check)", "the stub's canned JSON responses"],
    outside=["order-status tables (finite look-ups: every documented status is asserted to map to a bool, concretely)",
             "JSON parsing (C accelerator)", "wrapper classes other than binance Trade / OrderInfo / Balance and bitstamp "
             "OrderStatus / OrderInfo / Balance (the remaining ones are single Decimal(str) / timestamp accessors)"],
    required_covers=["a decimal parameter was transmitted", "an unset option was omitted", "timestamp kernel decided",
                     "the local time zone was not UTC", "a closed order with trades was queried",
                     "the pair info cache was warm",
                     "a streamed number with more than 15 significant digits was decoded"],
)

EXPONENTS = list(range(-14, 5))
EXPONENTS_WIDE = list(range(-30, 13))
SHAPES = [1, 3, 10, 30, 100, 3000, 10500, 29400, 1000000, 123456789, 999999999999, 10 ** 15, 5 * 10 ** 15 + 1]


def plain_condition(tok):
    """is this rendering plain fixed-point notation, for every value of the symbolic coefficient?"""
    if tok.kind == "plain":
        return True
    if tok.kind != "sci":
        return False
    d = tok.dec
    x = d.x
    if x > 0:
        return False
    need = -5 - x           # number of digits needed so that the adjusted exponent is >= -6
    if need <= 1:
        return True
    c = d.c
    if c.is_const():
        return abs(c.k) >= 10 ** (need - 1)
    z = c.z()
    return SymBool(z3.Or(z >= 10 ** (need - 1), z <= -(10 ** (need - 1))))


def check_param(ctx, sent, name, original, who):
    ctx.cover("a decimal parameter was transmitted")
    val = sent.get(name)
    if ctx.mode == "sym" and not isinstance(original, SymDec):
        ok = isinstance(val, str) and not isinstance(val, SymStr) and PLAIN_RE.match(val) is not None
        ctx.prove(ok, "C17 %s: decimals are transmitted in plain fixed-point notation" % who, info=(name, val))
        try:
            same = ok and Decimal(val) == original
        except Exception:
            same = False
        ctx.prove(same, "C17 %s: the transmitted decimal has exactly the caller's value" % who,
                  info=(name, val, str(original)))
        return
    if ctx.mode == "sym":
        ok_type = isinstance(val, SymStr)
        ctx.prove(ok_type, "C17 %s: decimal parameter is transmitted as a decimal string (no float / int conversion)"
                  % who, info=(name, type(val).__name__))
        if not ok_type:
            return
        ctx.prove(val.dec is original or bool_eq(val.dec, original),
                  "C17 %s: the transmitted decimal has exactly the caller's value" % who, info=name)
        ctx.prove(plain_condition(val), "C17 %s: decimals are transmitted in plain fixed-point notation" % who,
                  info=(name, val.kind, original.x))
    else:
        ok = isinstance(val, str) and PLAIN_RE.match(val) is not None
        ctx.prove(ok, "C17 %s: decimals are transmitted in plain fixed-point notation" % who, info=(name, val))
        if isinstance(val, str):
            try:
                same = Decimal(val) == original
            except Exception:
                same = False
            ctx.prove(same, "C17 %s: the transmitted decimal has exactly the caller's value" % who, info=(name, val))


def bool_eq(a, b):
    r = a == b
    return r


def sym_decimal(ctx, name):
    """symbolic coefficient x 10^e; e is solver-chosen for the call's subject parameter (itself solver-chosen among
    the decimal parameters of the call) and -2 for the others, so that paths grow linearly with the parameter count"""
    st = ctx.scratch.setdefault("_c17", {"n": 0, "subject": None})
    idx = st["n"]
    st["n"] += 1
    if st["subject"] is None:
        st["subject"] = ctx.choice("subject_parameter", 4)
    if idx == st["subject"] or (idx == 0 and st["subject"] >= 4):
        exps = EXPONENTS_WIDE if ctx.scratch.get("c17_wide") else EXPONENTS
        e = exps[ctx.choice(name + "_exponent", len(exps))]
    else:
        e = -2
    if ctx.scratch.get("c17_shapes"):
        # concrete coefficient of a solver-chosen digit shape: real strings flow through the real code, so that
        # character-level manipulation of the rendering (which a symbolic token would hide) is compared exactly
        is_subject = idx == st["subject"] or (idx == 0 and st["subject"] >= 4)
        coef = SHAPES[ctx.choice(name + "_shape", len(SHAPES))] if is_subject else 12345
        return Decimal(coef).scaleb(e)
    if ctx.mode == "sym":
        c = z3.Int(name + "_coefficient")
        ctx._reg(name + "_coefficient", "int", None, c)
        ctx.add(z3.And(c >= 1, c < (10 ** 28 if ctx.scratch.get("c17_wide") else 10 ** 16)))
        return SymDec(Lin.atom(c), e)
    ctx.vars[name + "_coefficient"] = None
    return Decimal(int(ctx.assign[name + "_coefficient"])).scaleb(e)


PAIR_INFO_ROUTES = [
    ("exchangeInfo", {"symbols": [{"symbol": "BTCUSDT", "permissions": ["SPOT", "MARGIN"], "filters": [
        {"filterType": "PRICE_FILTER", "minPrice": "0.01", "maxPrice": "1000000", "tickSize": "0.01000000"},
        {"filterType": "LOT_SIZE", "minQty": "0.00001", "maxQty": "9000", "stepSize": "0.00001000"}]}]}),
    ("trading-pairs-info", [{"name": "BTC/USD", "url_symbol": "btcusd", "base_decimals": 8, "counter_decimals": 0,
                             "minimum_order": "10.0 USD", "trading": "Enabled", "description": "Bitcoin / U.S. dollar"}]),
]


def _warm_pair_info(ctx, e, pair, sess):
    """The application may have asked for the pair's precisions before (the exchange object then has them cached):
    a solver choice.  What is transmitted must not depend on it."""
    if ctx.flag("pair_info_was_requested_before"):
        run(e.get_pair_info(pair))
        ctx.cover("the pair info cache was warm")
        del sess.calls[:]


def _binance(ctx):
    sess = StubSession(routes=PAIR_INFO_ROUTES)
    d = bs.realtime_dispatcher()
    e = bn_exchange.Exchange(d, api_key="key", api_secret="secret", session=sess)
    _warm_pair_info(ctx, e, PAIR, sess)
    return e, sess


def encode_binance(ctx, account="spot", entry="limit", op="buy", shapes=False, wide=False):
    import basana.external.binance.client.base as bn_base
    ctx.scratch["c17_shapes"] = shapes
    ctx.scratch["c17_wide"] = wide
    ctx.patch(bn_base, "time", types.SimpleNamespace(time=lambda: 1700000000.123), both_modes=True)
    e, sess = _binance(ctx)
    acc = {"spot": lambda: e.spot_account, "cross": lambda: e.cross_margin_account,
           "isolated": lambda: e.isolated_margin_account}[account]()
    operation = BUY if op == "buy" else SELL
    amount = sym_decimal(ctx, "amount")
    expect = {}
    absent = []
    if entry == "market":
        run(acc.create_market_order(operation, PAIR, amount=amount))
        expect = {"quantity": amount}
        absent = ["quoteOrderQty", "price", "stopPrice", "timeInForce", "newClientOrderId"]
        typ = "MARKET"
    elif entry == "market_quote":
        run(acc.create_market_order(operation, PAIR, quote_amount=amount))
        expect = {"quoteOrderQty": amount}
        absent = ["quantity", "price", "stopPrice", "timeInForce", "newClientOrderId"]
        typ = "MARKET"
    elif entry == "limit":
        price = sym_decimal(ctx, "price")
        run(acc.create_limit_order(operation, PAIR, amount, price))
        expect = {"quantity": amount, "price": price}
        absent = ["quoteOrderQty", "stopPrice", "newClientOrderId"]
        typ = "LIMIT"
    elif entry == "stop_limit":
        price = sym_decimal(ctx, "price")
        stop = sym_decimal(ctx, "stop")
        run(acc.create_stop_limit_order(operation, PAIR, amount, stop, price, client_order_id="my-id"))
        expect = {"quantity": amount, "price": price, "stopPrice": stop}
        absent = ["quoteOrderQty"]
        typ = "STOP_LOSS_LIMIT"
    elif entry in ("oco", "oco_stop_limit"):
        price = sym_decimal(ctx, "price")
        stop = sym_decimal(ctx, "stop")
        if entry == "oco":
            run(acc.create_oco_order(operation, PAIR, amount, price, stop))
            expect = {"quantity": amount, "price": price, "stopPrice": stop}
            absent = ["stopLimitPrice", "stopLimitTimeInForce", "listClientOrderId"]
        else:
            slp = sym_decimal(ctx, "stop_limit")
            run(acc.create_oco_order(operation, PAIR, amount, price, stop, stop_limit_price=slp))
            expect = {"quantity": amount, "price": price, "stopPrice": stop, "stopLimitPrice": slp}
            absent = ["listClientOrderId", "limitClientOrderId"]
        typ = None
    else:
        raise ValueError(entry)
    call = sess.calls[-1]
    sent = form_fields(call["data"])
    sent.update(call["params"] or {})
    who = "binance %s %s" % (account, entry)
    for name, original in expect.items():
        check_param(ctx, sent, name, original, who)
    for name in absent:
        ctx.cover("an unset option was omitted")
        ctx.prove(name not in sent, "C17 %s: options left unset are omitted" % who, info=name)
    want_path = {"spot": "/api/v3/order", "cross": "/sapi/v1/margin/order", "isolated": "/sapi/v1/margin/order"}[account]
    if typ is None:
        want_path += "/oco"
    ctx.prove([call["method"] == "POST", call["url"].split("?")[0].endswith(want_path), sent.get("symbol") == "BTCUSDT",
               sent.get("side") == ("BUY" if op == "buy" else "SELL")] + ([sent.get("type") == typ] if typ else []),
              "C17 %s: operation, pair and order type select the documented endpoint, side and symbol" % who,
              info=(call["method"], call["url"], sent.get("symbol"), sent.get("side"), sent.get("type")))
    if account == "isolated":
        ctx.prove(str(sent.get("isIsolated")).upper() == "TRUE", "C17 isolated margin orders are flagged isIsolated")
    ctx.cover("timestamp kernel decided")


def encode_bitstamp(ctx, entry="limit", op="buy", shapes=False, wide=False):
    import basana.external.bitstamp.helpers as bt_helpers
    ctx.scratch["c17_shapes"] = shapes
    ctx.scratch["c17_wide"] = wide
    ctx.patch(bt_helpers, "time", types.SimpleNamespace(time=lambda: 1700000000.123), both_modes=True)
    sess = StubSession(routes=PAIR_INFO_ROUTES)
    d = bs.realtime_dispatcher()
    e = bt_exchange.Exchange(d, api_key="key", api_secret="secret", session=sess)
    operation = BUY if op == "buy" else SELL
    pair = Pair("BTC", "USD")
    _warm_pair_info(ctx, e, pair, sess)
    amount = sym_decimal(ctx, "amount")
    who = "bitstamp " + entry
    if entry == "market":
        run(e.create_market_order(operation, pair, amount))
        expect = {"amount": amount}
        absent = ["price", "client_order_id"]
        path = "/api/v2/%s/market/btcusd/" % op
    elif entry == "limit":
        price = sym_decimal(ctx, "price")
        run(e.create_limit_order(operation, pair, amount, price))
        expect = {"amount": amount, "price": price}
        absent = ["client_order_id"]
        path = "/api/v2/%s/btcusd/" % op
    else:
        run(e.create_instant_order(operation, pair, amount))
        expect = {"amount": amount}
        absent = ["price", "client_order_id"]
        path = "/api/v2/%s/instant/btcusd/" % op
    call = sess.calls[-1]
    sent = form_fields(call["data"])
    for name, original in expect.items():
        check_param(ctx, sent, name, original, who)
    for name in absent:
        ctx.cover("an unset option was omitted")
        ctx.prove(name not in sent, "C17 %s: options left unset are omitted" % who, info=name)
    ctx.prove([call["method"] == "POST", call["url"].split("?")[0].endswith(path)],
              "C17 %s: operation, pair and order type select the documented endpoint" % who, info=call["url"])
    ctx.cover("timestamp kernel decided")


# ------------------------------------------------------------------------------------------ timestamps
EPOCH1970 = datetime.datetime(1970, 1, 1, tzinfo=UTC)
Y2010 = int((datetime.datetime(2010, 1, 1, tzinfo=UTC) - EPOCH1970).total_seconds())
Y2100 = int((datetime.datetime(2100, 1, 1, tzinfo=UTC) - EPOCH1970).total_seconds())


LOCAL_ZONES = ["UTC0", "JST-9", "ART3"]      # POSIX TZ strings (no tz database needed): UTC, UTC+9, UTC-3


class _TZRestore:
    """entry for ctx.patches that puts the process's local time zone back at the end of the path"""
    def __setattr__(self, attr, old):
        if old is None:
            os.environ.pop("TZ", None)
        else:
            os.environ["TZ"] = old
        time.tzset()


def _local_zone(ctx, zones=None):
    """The process's local time zone is part of the environment: a solver choice (both modes set the real TZ)."""
    zones = zones or LOCAL_ZONES
    tz = zones[ctx.choice("local_time_zone", len(zones))]
    ctx.patches.append((_TZRestore(), "tz", os.environ.get("TZ")))
    os.environ["TZ"] = tz
    time.tzset()
    if tz != "UTC0":
        ctx.cover("the local time zone was not UTC")
    return tz


class _LocalNaive(SymDT):
    """what datetime.fromtimestamp(x) without tz returns: the local wall-clock reading, naive.  The proxy's value is the
    true instant; labelling the reading as UTC (replace(tzinfo=utc)) shifts it by the zone's offset, astimezone does not."""
    def replace(self, **kw):
        if set(kw) <= {"tzinfo"} and kw.get("tzinfo") is not None:
            off = time.localtime(86400 * 365 * 40).tm_gmtoff        # fixed-offset zones only (LOCAL_ZONES)
            off += int(kw["tzinfo"].utcoffset(None).total_seconds()) * -1
            return SymDT(L.add(self._e, Lin({}, off * 10 ** 6)))
        return SymDT.replace(self, **kw)

    def astimezone(self, tz=None):
        return SymDT(self._e)


class _RealDateTime:
    """stand-in for the name `datetime.datetime` in the helper modules: fromtimestamp over the reals"""
    @staticmethod
    def fromtimestamp(x, tz=None):
        from symx.num import SymReal
        if isinstance(x, SymReal):
            if x.q is None:
                raise HarnessError("timestamp expression is not an exact ratio of the input")
            n, den = x.q
            us = SymDec(n, 0, 1 if den == 1 else Lin({}, den)) * Decimal(10 ** 6)
            q = us.quantize(Decimal(1), rounding="ROUND_HALF_EVEN")
            e = L.add(q.c, Lin({}, int((EPOCH1970 - __import__("symx").EPOCH).total_seconds()) * 10 ** 6))
            if tz is None:
                return _LocalNaive(e)
            return SymDT(e)
        return datetime.datetime.fromtimestamp(x, tz=tz)

    @staticmethod
    def utcfromtimestamp(x):
        r = _RealDateTime.fromtimestamp(x, tz=UTC)
        return r if isinstance(r, SymDT) else r.replace(tzinfo=None)

    @staticmethod
    def now(tz=None):
        return datetime.datetime.now(tz=tz)


def timestamps_reals(ctx, which="binance_ms"):
    """decoded instant == the integer timestamp, exactly, treating floats as reals"""
    _local_zone(ctx)
    fake = types.SimpleNamespace(datetime=_RealDateTime, timezone=datetime.timezone, timedelta=datetime.timedelta)
    if which == "binance_ms":
        t = ctx.int("timestamp_ms", Y2010 * 1000, Y2100 * 1000)
        ctx.patch(bn_helpers, "datetime", fake)
        got = bn_helpers.timestamp_to_datetime(t)
        want_us = (t * 1000) if ctx.mode != "sym" else None
        if ctx.mode == "sym":
            want = SymDT(L.add(L.scale(L.lin(t.e), 1000), Lin({}, _off())))
        else:
            want = EPOCH1970 + datetime.timedelta(microseconds=t * 1000)
    else:
        mod = {"bitstamp_trades": bt_trades, "bitstamp_orders": bt_orders, "bitstamp_order_book": bt_order_book}[which]
        t = ctx.int("timestamp_us", Y2010 * 10 ** 6, Y2100 * 10 ** 6)
        ctx.patch(mod, "datetime", fake)
        ctx.patch(mod, "int", lambda v: v, both_modes=False) if False else None
        cls = {"bitstamp_trades": "Trade", "bitstamp_orders": "Order", "bitstamp_order_book": "OrderBook"}[which]
        payload = {"microtimestamp": t if ctx.mode == "sym" else str(t)}
        obj = _construct(mod, cls, payload, ctx)
        got = obj.datetime
        if ctx.mode == "sym":
            want = SymDT(L.add(L.lin(t.e), Lin({}, _off())))
        else:
            want = EPOCH1970 + datetime.timedelta(microseconds=t)
    ctx.prove(got == want, "C17 %s timestamps decode to exactly that UTC instant (over the reals)" % which)


def _off():
    import symx
    return int((EPOCH1970 - symx.EPOCH).total_seconds()) * 10 ** 6


def _construct(mod, clsname, payload, ctx):
    cls = getattr(mod, clsname)
    if ctx.mode == "sym":
        # int("123") of the JSON string: the symbolic timestamp stands for the parsed integer
        ctx.patches.append((_ModGlobals(mod), "int", mod.__dict__.get("int", _ABSENT)))
        mod.__dict__["int"] = lambda v: v if isinstance(v, SymInt) else int(v)
    sig = inspect.signature(cls.__init__)
    n = len(sig.parameters) - 1
    if n == 1:
        return cls(payload)
    if n == 2:
        return cls(Pair("BTC", "USD"), payload)
    return cls(Pair("BTC", "USD"), payload, *([None] * (n - 2)))


_ABSENT = object()


class _ModGlobals:
    def __init__(self, mod):
        object.__setattr__(self, "mod", mod)

    def __setattr__(self, name, old):
        if old is _ABSENT:
            self.mod.__dict__.pop(name, None)
        else:
            self.mod.__dict__[name] = old


def timestamps_binary64(ctx, which="binance_ms"):
    """binary64 exactness of the kernel `<int> / <K>` followed by datetime.fromtimestamp, per binade (fpkernel)."""
    from symx import fpkernel
    if which == "binance_ms":
        src, fn = bn_helpers, "timestamp_to_datetime"
        node = fpkernel.find_kernel(inspect.getsource(getattr(src, fn)))
        lo, hi = Y2010 * 1000, Y2100 * 1000
    else:
        mod = {"bitstamp_trades": bt_trades, "bitstamp_orders": bt_orders, "bitstamp_order_book": bt_order_book}[which]
        cls = {"bitstamp_trades": "Trade", "bitstamp_orders": "Order", "bitstamp_order_book": "OrderBook"}[which]
        node = fpkernel.find_kernel(inspect.getsource(getattr(mod, cls).datetime.fget))
        lo, hi = Y2010 * 10 ** 6, Y2100 * 10 ** 6
    ctx.prove(node is not None, "C17 %s: the timestamp kernel has the shape <integer> / <power-of-ten float> (binary64 "
                                "lemma applicable)" % which)
    if node is None:
        return
    K = node
    res = fpkernel.decide(K, lo, hi)
    ctx.note("fpkernel %s: K=%d, %d cases (%d reachable), %.1fs" % (which, K, res["cases"], res["reachable"], res["wall"]))
    ctx.prove(res["validated"], "C17 fpkernel: the integer model of binary64 division / fromtimestamp agrees with the "
                                "real datetime.fromtimestamp on every case's witness", info=res.get("mismatch"))
    ctx.prove(not res["undecided"], "C17 fpkernel: every case decided", info=res["undecided"])
    ctx.prove(not res["counterexamples"],
              "C17 %s timestamps in 2010..2100 decode to exactly that UTC instant in binary64 arithmetic" % which,
              info=res["counterexamples"][:2])
    ctx.stats["queries"] += res["cases"] * 2
    ctx.stats["solver_s"] += res["solver_s"]


# ------------------------------------------------------------------------------------------ payload decoding
def _cell(ctx, name, prec=8):
    """a numeric JSON string cell standing for a symbolic decimal (sym mode) / the real string (concrete mode)"""
    d = ctx.dec(name, prec, lo=0, hi=10 ** 12)
    if ctx.mode == "sym":
        return SymStr(d, "plain"), d
    return format(d, "f"), d


def decode_binance_order(ctx, ntrades=3):
    """binance OrderInfo / Trade / Balance wrappers: every numeric field decodes to exactly the payload's value and the
    fees are the per-asset sums of the trades' commissions"""
    from basana.external.binance import common as bn_common
    ctx.patch(bn_common, "Decimal", DecimalFactory)
    ctx.patch(bn_helpers, "Decimal", DecimalFactory)
    cells = {}
    payload = {"orderId": 7, "clientOrderId": "c", "status": "PARTIALLY_FILLED", "side": "SELL", "type": "LIMIT",
               "timeInForce": "GTC", "time": 1577836800000, "updateTime": 1577836800000, "symbol": "BTCUSDT"}
    for key, name in (("origQty", "amount"), ("executedQty", "amount_filled"),
                      ("cummulativeQuoteQty", "quote_amount_filled"), ("price", "limit_price"),
                      ("stopPrice", "stop_price")):
        payload[key], cells[name] = _cell(ctx, "order_" + key)
    assets = ["BNB", "BNB", "USDT", "BNB"][:ntrades]
    trades, expect_fees = [], {}
    for i, asset in enumerate(assets):
        c, cd = _cell(ctx, "trade%d_commission" % i)
        p_, pd = _cell(ctx, "trade%d_price" % i, 2)
        q, qd = _cell(ctx, "trade%d_qty" % i)
        qq, qqd = _cell(ctx, "trade%d_quoteQty" % i, 2)
        tr = bn_common.Trade({"id": i, "orderId": 7, "time": 1577836800000, "isBuyer": False, "isMaker": True,
                              "isBestMatch": True, "price": p_, "qty": q, "quoteQty": qq, "commission": c,
                              "commissionAsset": asset})
        ctx.prove([tr.price == pd, tr.amount == qd, tr.quote_amount == qqd, tr.commission == cd,
                   tr.commission_asset == asset], "C17 binance trade fields decode to exactly the payload's values")
        trades.append(tr)
        expect_fees[asset] = expect_fees.get(asset, Decimal(0)) + cd
    info = bn_common.OrderInfo(payload, trades)
    ctx.prove([info.amount == cells["amount"], info.amount_filled == cells["amount_filled"],
               info.quote_amount_filled == cells["quote_amount_filled"],
               info.amount_remaining == cells["amount"] - cells["amount_filled"], info.is_open is True,
               info.operation == SELL],
              "C17 binance order fields decode to exactly the payload's values")
    for name in ("limit_price", "stop_price"):
        got = getattr(info, name)
        want = cells[name]
        if got is None:
            ctx.prove(want == 0, "C17 binance optional prices are None only when the payload says 0")
        else:
            ctx.prove(got == want, "C17 binance optional prices decode to exactly the payload's values")
    fees = dict(info.fees)
    for asset, want in expect_fees.items():
        got = fees.get(asset, Decimal(0))
        ctx.prove(got == want, "C17 binance order fees are the per-asset sums of its trades' commissions",
                  info=(asset, len(trades)))
    ctx.prove(set(fees) <= set(expect_fees), "C17 binance order fees mention only assets that were charged")
    free, fd = _cell(ctx, "balance_free")
    locked, ld = _cell(ctx, "balance_locked")
    bal = bn_common.Balance({"asset": "BTC", "free": free, "locked": locked})
    ctx.prove([bal.available == fd, bal.locked == ld, bal.total == fd + ld], "C17 binance balances decode exactly")


class _RoutingSession(StubSession):
    """answers by URL: .../myTrades -> the order's trades, anything else -> the order"""
    def __init__(self, order, trades):
        super().__init__(order)
        self.order, self.trades = order, trades

    def _call(self, method, url, **kw):
        r = super()._call(method, url, **kw)
        r._payload = self.trades if "myTrades" in str(url) else self.order
        return r


def binance_get_order_info(ctx, account="spot_account"):
    """Account.get_order_info through the real client stack: whatever documented status the order is in, the amounts and
    the fees it reports are exactly what the exchange returned (order JSON + its trades)."""
    from basana.external.binance import common as bn_common
    ctx.patch(bn_common, "Decimal", DecimalFactory)
    ctx.patch(bn_helpers, "Decimal", DecimalFactory)
    # statuses under which an order can have traded; NEW / REJECTED orders have no trades
    status = ctx.pick("order_status", ["PARTIALLY_FILLED", "FILLED", "CANCELED", "EXPIRED", "PENDING_CANCEL", "NEW",
                                       "REJECTED"])
    traded = status not in ("NEW", "REJECTED")
    order = {"orderId": 7, "clientOrderId": "c", "status": status, "side": "BUY", "type": "LIMIT",
             "timeInForce": "GTC", "time": 1577836800000, "updateTime": 1577836800000, "symbol": "BTCUSDT",
             "isIsolated": account == "isolated_margin_account", "isWorking": True}
    cells = {}
    for key, name in (("origQty", "amount"), ("executedQty", "amount_filled"),
                      ("cummulativeQuoteQty", "quote_amount_filled"), ("price", "limit_price")):
        if traded or key in ("origQty", "price"):
            order[key], cells[name] = _cell(ctx, "order_" + key)
        else:
            order[key], cells[name] = "0.00000000", Decimal(0)
    order["stopPrice"] = "0.00000000"
    trades, expect_fees = [], {}
    if traded:
        for i, asset in enumerate(["BNB", "BTC"]):
            c, cd = _cell(ctx, "trade%d_commission" % i)
            trades.append({"id": i, "orderId": 7, "time": 1577836800000, "isBuyer": True, "isMaker": True,
                           "isBestMatch": True, "price": "100.00", "qty": "1.00000000", "quoteQty": "100.00",
                           "commission": c, "commissionAsset": asset, "symbol": "BTCUSDT"})
            expect_fees[asset] = cd
    sess = _RoutingSession(order, trades)
    e = bn_exchange.Exchange(None, api_key="k", api_secret="s", session=sess)
    acc = getattr(e, account)
    pair = Pair("BTC", "USDT")
    if account == "isolated_margin_account":
        info = run(acc.get_order_info(pair, order_id="7"))
    else:
        info = run(acc.get_order_info(pair, order_id="7"))
    ctx.prove([info.amount == cells["amount"], info.amount_filled == cells["amount_filled"],
               info.quote_amount_filled == cells["quote_amount_filled"]],
              "C17 binance get_order_info reports exactly the amounts the exchange returned", info=status)
    fees = dict(info.fees)
    for asset, want in expect_fees.items():
        ctx.prove(fees.get(asset, Decimal(0)) == want,
                  "C17 binance get_order_info reports the fees of the order's trades whatever its status",
                  info=(status, asset))
    ctx.prove(set(fees) <= set(expect_fees), "C17 binance order fees mention only assets that were charged")
    ctx.prove(info.is_open is (status in ("NEW", "PARTIALLY_FILLED", "PENDING_CANCEL")),
              "C17 binance order status %s decodes to the documented open/closed flag" % status)
    if traded and not info.is_open:
        ctx.cover("a closed order with trades was queried")


NUMERIC_SHAPES = ["1", "0.1", "0.00000001", "250000000.00000001", "19034.123456789012", "999999999999.99999999",
                  "12345.678"]


def decode_bitstamp_stream(ctx, which="trade"):
    """Streamed bitstamp trades / orders as they arrive: the JSON text carries every amount and price twice, as a number
    and as the exact string; the text goes through json.loads (where the number becomes a binary64) and the wrapper
    must still report exactly the decimal that was sent.  Values are digit shapes (choice), the text is real."""
    import json
    amount = NUMERIC_SHAPES[ctx.choice("amount_shape", len(NUMERIC_SHAPES))]
    price = NUMERIC_SHAPES[ctx.choice("price_shape", len(NUMERIC_SHAPES))]
    pair = Pair("BTC", "USD")
    if which == "trade":
        text = ('{"id": 1, "amount": %s, "amount_str": "%s", "price": %s, "price_str": "%s", "type": 0, '
                '"microtimestamp": "1577836800000000", "timestamp": "1577836800", "buy_order_id": 1, "sell_order_id": 2}'
                % (amount, amount, price, price))
        obj = bt_trades.Trade(pair, json.loads(text))
        ctx.prove([obj.amount == Decimal(amount), obj.price == Decimal(price)],
                  "C17 bitstamp streamed trades decode to exactly the decimals that were sent", info=(amount, price))
    else:
        text = ('{"id": 1, "id_str": "1", "order_type": 0, "order_subtype": 0, "amount": %s, "amount_str": "%s", '
                '"amount_at_create": "%s", "amount_traded": "0", "price": %s, "price_str": "%s", '
                '"microtimestamp": "1577836800000000", "datetime": "1577836800"}'
                % (amount, amount, amount, price, price))
        obj = bt_orders.Order(pair, json.loads(text))
        ctx.prove([obj.amount == Decimal(amount), obj.amount_filled == 0, obj.price == Decimal(price)],
                  "C17 bitstamp streamed orders decode to exactly the decimals that were sent", info=(amount, price))
    if len(amount.replace(".", "")) > 15:
        ctx.cover("a streamed number with more than 15 significant digits was decoded")


def decode_bitstamp_order(ctx, ntx=2):
    """bitstamp OrderInfo / Balance wrappers: filled amounts and fees are the sums over the transactions"""
    ctx.patch(bt_exchange, "Decimal", DecimalFactory)
    pair = Pair("BTC", "USD")
    txs, fee_sum, base_sum, quote_sum = [], Decimal(0), Decimal(0), Decimal(0)
    for i in range(ntx):
        fee, fd = _cell(ctx, "tx%d_fee" % i, 5)
        b, bd = _cell(ctx, "tx%d_btc" % i)
        q, qd = _cell(ctx, "tx%d_usd" % i, 2)
        pr, prd = _cell(ctx, "tx%d_price" % i, 2)
        txs.append({"tid": i, "price": pr, "fee": fee, "btc": b, "usd": q, "type": 2,
                    "datetime": "2020-01-01 00:00:00"})
        fee_sum, base_sum, quote_sum = fee_sum + fd, base_sum + bd, quote_sum + qd
    rem, remd = _cell(ctx, "amount_remaining")
    st = bt_exchange.OrderStatus({"id": 5, "status": "Open", "amount_remaining": rem, "transactions": txs})
    info = bt_exchange.OrderInfo(pair, st)
    ctx.prove([info.amount_filled == base_sum, info.quote_amount_filled == quote_sum,
               info.amount_remaining == remd, info.is_open is True],
              "C17 bitstamp order amounts are the sums over its transactions, decoded exactly")
    got = info.fees.get("USD", Decimal(0))
    ctx.prove(got == fee_sum, "C17 bitstamp order fees are the sum of its transactions' fees")
    av, avd = _cell(ctx, "available")
    tot, totd = _cell(ctx, "total")
    res, resd = _cell(ctx, "reserved")
    bal = bt_exchange.Balance({"currency": "btc", "available": av, "total": tot, "reserved": res})
    ctx.prove([bal.available == avd, bal.total == totd, bal.reserved == resd], "C17 bitstamp balances decode exactly")
    for st_name, want in (("Open", True), ("Finished", False), ("Expired", False), ("Canceled", False)):
        i2 = bt_exchange.OrderInfo(pair, bt_exchange.OrderStatus({"id": 5, "status": st_name, "amount_remaining": "0",
                                                                  "transactions": []}))
        ctx.prove(i2.is_open is want, "C17 bitstamp order status %s decodes to the documented open/closed flag" % st_name)


def status_tables(ctx):
    """finite look-ups, asserted concretely: every documented order status maps to an open/closed flag"""
    for st, want in (("NEW", True), ("PARTIALLY_FILLED", True), ("FILLED", False), ("CANCELED", False),
                     ("PENDING_CANCEL", True), ("REJECTED", False), ("EXPIRED", False)):
        ctx.prove(bn_helpers.order_status_is_open(st) is want, "C17 binance order status %s decodes to the documented "
                                                               "open/closed flag" % st)
    for st, want in (("EXECUTING", True), ("ALL_DONE", False), ("REJECT", False)):
        ctx.prove(bn_helpers.oco_order_status_is_open(st) is want, "C17 binance OCO status %s decodes correctly" % st)


def jobs(tier):
    js = []
    for account in ("spot", "cross", "isolated"):
        for entry in ("market", "market_quote", "limit", "stop_limit", "oco", "oco_stop_limit"):
            for op in ("buy", "sell"):
                js.append(Job("encode binance %s %s %s" % (account, entry, op), "encode_binance",
                              dict(account=account, entry=entry, op=op), validate_every=40, sample_every=100,
                              max_paths=2000000, split=64 if entry in ("oco_stop_limit",) else 0))
                if op == "buy":
                    js.append(Job("encode (digit shapes) binance %s %s" % (account, entry), "encode_binance",
                                  dict(account=account, entry=entry, op=op, shapes=True), validate_every=0,
                                  sample_every=200, max_paths=2000000))
    for entry in ("market", "limit", "instant"):
        for op in ("buy", "sell"):
            js.append(Job("encode bitstamp %s %s" % (entry, op), "encode_bitstamp", dict(entry=entry, op=op),
                          validate_every=20, sample_every=50))
            if op == "sell":
                js.append(Job("encode (digit shapes) bitstamp %s" % entry, "encode_bitstamp",
                              dict(entry=entry, op=op, shapes=True), validate_every=0, sample_every=200))
    if tier == "thorough":
        for account in ("spot", "cross", "isolated"):
            for entry in ("limit", "stop_limit", "oco_stop_limit", "market_quote"):
                js.append(Job("encode (28 digits, exponents -30..+12) binance %s %s" % (account, entry),
                              "encode_binance", dict(account=account, entry=entry, op="sell", wide=True),
                              validate_every=40, sample_every=100, max_paths=2000000))
        for entry in ("market", "limit", "instant"):
            js.append(Job("encode (28 digits, exponents -30..+12) bitstamp %s" % entry, "encode_bitstamp",
                          dict(entry=entry, op="buy", wide=True), validate_every=20, sample_every=50))
    for which in ("binance_ms", "bitstamp_trades", "bitstamp_orders", "bitstamp_order_book"):
        js.append(Job("timestamps over the reals: " + which, "timestamps_reals", dict(which=which), validate_every=1,
                      sample_every=1))
        js.append(Job("timestamps binary64: " + which, "timestamps_binary64", dict(which=which), validate_every=0,
                      sample_every=1))
    js.append(Job("status tables", "status_tables", validate_every=0, sample_every=1))
    for account in ("spot_account", "cross_margin_account", "isolated_margin_account"):
        js.append(Job("binance %s.get_order_info, every status" % account, "binance_get_order_info",
                      dict(account=account), validate_every=5, sample_every=10))
    js.append(Job("decode binance order / trades / balance", "decode_binance_order", dict(ntrades=4 if tier != "quick"
                                                                                       else 3),
                  validate_every=5, sample_every=10))
    for which in ("trade", "order"):
        js.append(Job("decode bitstamp streamed %s (JSON text with numbers and exact strings)" % which,
                      "decode_bitstamp_stream", dict(which=which), validate_every=5, sample_every=10))
    js.append(Job("decode bitstamp order / balance", "decode_bitstamp_order", dict(ntx=2), validate_every=5,
                  sample_every=10))
    return js

"""Recording stand-in for aiohttp.ClientSession, passed through the clients' own `session=` parameter (no sockets)."""
import json


class Resp:
    def __init__(self, payload, status=200):
        self._payload = payload
        self.status = status
        self.reason = "OK"
        self.ok = status < 400
        self.headers = {"Content-Type": "application/json"}

    async def __aenter__(self):
        return self

    async def __aexit__(self, *a):
        return False

    async def json(self):
        return self._payload

    async def text(self):
        return json.dumps(self._payload)


GENERIC = {
    "orderId": 1, "orderListId": 7, "clientOrderId": "cid", "listClientOrderId": "lcid", "symbol": "BTCUSDT",
    "status": "NEW", "listOrderStatus": "EXECUTING", "fills": [], "orders": [], "orderReports": [], "balances": [],
    "listenKey": "LK", "id": "42", "datetime": "2020-01-01 00:00:00", "type": "0", "price": "1", "amount": "1",
    "token": "tok", "user_id": 1, "isIsolated": False, "transactTime": 1577836800000, "userAssets": [], "assets": [],
}


class StubSession:
    def __init__(self, payload=None, routes=()):
        self.calls = []
        self.payload = GENERIC if payload is None else payload
        self.routes = list(routes)          # [(substring of the URL, payload)]

    def _call(self, method, url, headers=None, params=None, data=None, timeout=None, skip_auto_headers=None, **kw):
        self.calls.append(dict(method=method.upper(), url=str(url), url_obj=url, headers=dict(headers or {}), params=params,
                               data=data, skip_auto_headers=skip_auto_headers))
        for sub, payload in self.routes:
            if sub in str(url):
                return Resp(payload)
        return Resp(self.payload)

    def get(self, url, **kw):
        return self._call("get", url, **kw)

    def post(self, url, **kw):
        return self._call("post", url, **kw)

    def put(self, url, **kw):
        return self._call("put", url, **kw)

    def delete(self, url, **kw):
        return self._call("delete", url, **kw)


def form_fields(data):
    """the name -> value mapping of an aiohttp.FormData (or a plain dict)"""
    if data is None:
        return {}
    if isinstance(data, dict):
        return dict(data)
    out = {}
    for type_options, _headers, value in data._fields:
        out[type_options["name"]] = value
    return out


def run(coro):
    try:
        coro.send(None)
    except StopIteration as e:
        return e.value
    coro.close()
    raise RuntimeError("client coroutine suspended (the stub session never blocks)")

"""C20 Token bucket bounds the request rate.

Real basana.core.token_bucket.TokenBucketLimiter; `time.time` is replaced by a stub returning symbolic
non-decreasing instants; tokens_per_period, period_duration, initial_tokens are symbolic reals.
"""
import math
from fractions import Fraction

import z3

from symx import And, Implies, Or, SymBool, SymReal
from symx.core import Ctx, _b
from symx.num import _zr
from symx.run import Job

from basana.core import token_bucket

META = dict(
    module="scenarios.c20_token_bucket", level="model_checking",
    bounds=dict(
        quick="(a) one consume() from an arbitrary state, everything symbolic (inductive step + first call): waits equal "
              "the reference bucket for histories of any length; (b) histories of k <= 2 calls, everything symbolic; "
              "(c) histories and bursts of k <= 4 calls with tokens_per_period in {1,0.5,7,10,2.5}, period in "
              "{1,2,60,0.25} chosen by the solver, initial_tokens and all arrival instants arbitrary reals",
        thorough="same with k <= 6 in (c)"),
    stubs=["basana.core.token_bucket.time -> object whose time() returns the scenario's symbolic instants"],
    assumptions=["python floats are modelled as mathematical reals (binary rounding of the limiter's arithmetic is "
                 "outside the claim)", "callers wait exactly the returned time (premise of the statement)"],
    outside=["asyncio.sleep accuracy in TokenBucketLimiter.wait()", "more than k calls (k stated per tier)"],
    required_covers=["some request had to wait", "bucket was capped at capacity", "burst outlasted the tokens"],
)


class _Clock:
    def __init__(self, instants):
        self.instants = list(instants)
        self.i = 0

    def time(self):
        v = self.instants[self.i]
        self.i += 1
        return v


def _approx(a, b):
    if isinstance(a, SymReal) or isinstance(b, SymReal):
        return a == b
    return math.isclose(a, b, rel_tol=1e-9, abs_tol=1e-9)


def _le(a, b):
    """a <= b with a float tolerance in concrete mode"""
    if isinstance(a, SymReal) or isinstance(b, SymReal):
        return a <= b
    return a <= b + 1e-9 * max(1.0, abs(a), abs(b))


def _rmin(a, b):
    if isinstance(a, SymReal) or isinstance(b, SymReal):
        za, zb = _zr(a), _zr(b)
        return SymReal(z3.If(za <= zb, za, zb))
    return min(a, b)


def _rmax(a, b):
    if isinstance(a, SymReal) or isinstance(b, SymReal):
        za, zb = _zr(a), _zr(b)
        return SymReal(z3.If(za >= zb, za, zb))
    return max(a, b)


def _count_in(sends, lo, hi):
    """number of sends s with lo <= s <= hi (real term or python int)"""
    if any(isinstance(s, SymReal) for s in sends + [lo, hi]):
        return SymReal(z3.Sum([z3.If(z3.And(_zr(lo) <= _zr(s), _zr(s) <= _zr(hi)), z3.RealVal(1), z3.RealVal(0))
                               for s in sends]))
    return sum(1 for s in sends if lo <= s + 1e-12 and s <= hi + 1e-12)


TPP_SET = [1, 0.5, 7, 10, 2.5]
PERIOD_SET = [1, 2, 60, 0.25]


def history(ctx, k=4, burst=False, config="symbolic"):
    if config == "symbolic":
        tpp = ctx.real("tokens_per_period")
        period = ctx.real("period_duration")
    else:
        # configuration drawn by the solver from a finite set: every remaining product has one concrete factor,
        # so the obligations are linear real arithmetic and decided instantly
        tpp = Fraction(ctx.pick("tokens_per_period_choice", TPP_SET))
        period = Fraction(ctx.pick("period_duration_choice", PERIOD_SET))
        if ctx.mode != "sym":
            tpp, period = float(tpp), float(period)
    initial = ctx.real("initial_tokens")
    ctx.assume(tpp > 0, period > 0, initial >= 0)
    t0 = ctx.real("t0")
    ts = []
    prev = t0
    for i in range(k):
        if burst and i > 0:
            t = ts[0]
        else:
            t = ctx.real("t%d" % (i + 1))
            ctx.assume(t >= prev)
        ts.append(t)
        prev = t
    clock = _Clock([t0] + ts)
    ctx.patch(token_bucket, "time", clock, both_modes=True)
    lim = token_bucket.TokenBucketLimiter(tpp, period, initial)
    rate = tpp / period
    capacity = _rmax(tpp, initial)
    # independent reference model of the statement: refill at `rate` up to the capacity, one token per request,
    # debt converted into the shortest wait
    ref_tokens = initial
    last = t0
    waits, sends = [], []
    avail_at_burst = None
    for i, t in enumerate(ts):
        w = lim.consume()
        waits.append(w)
        ref_tokens = _rmin(tpp, ref_tokens + (t - last) * rate)
        if i == 0:
            avail_at_burst = ref_tokens
            if isinstance(initial, SymReal):
                if Ctx.cur.branch(_b(initial + (t - t0) * rate > tpp)):
                    ctx.cover("bucket was capped at capacity")
            elif initial + (t - t0) * rate > tpp:
                ctx.cover("bucket was capped at capacity")
        last = t
        ref_tokens = ref_tokens - 1
        expected = _rmax(0, 0 - ref_tokens) / rate
        ctx.prove(w >= 0, "wait is never negative (call %d)" % (i + 1))
        ctx.prove(_approx(w, expected), "wait equals the reference bucket's delay (call %d)" % (i + 1))
        if isinstance(w, SymReal):
            if Ctx.cur.branch(_b(w > 0)):
                ctx.cover("some request had to wait")
        elif w > 0:
            ctx.cover("some request had to wait")
        sends.append(t + w)
        if burst:
            kth = i + 1
            ctx.prove(_approx(w, _rmax(0, kth - avail_at_burst) / rate),
                      "k-th request of a burst waits max(0, k - a) / rate (k=%d)" % kth)
            if kth == k:
                if isinstance(w, SymReal):
                    if Ctx.cur.branch(_b(w > 0)):
                        ctx.cover("burst outlasted the tokens")
                elif w > 0:
                    ctx.cover("burst outlasted the tokens")
    if not burst:
        ctx.cover("burst outlasted the tokens")
    # rate bound: sends are non-decreasing in call order (lemma, proved), hence a window containing the sends of
    # calls i..j has length L >= send_j - send_i and contains exactly those j - i + 1 sends
    for i in range(k - 1):
        ctx.prove(sends[i] <= sends[i + 1] if isinstance(sends[i], SymReal) or isinstance(sends[i + 1], SymReal)
                  else _le(sends[i], sends[i + 1]), "sends happen in call order (%d,%d)" % (i + 1, i + 2))
    for i in range(k):
        for j in range(i + 1, k):
            L = sends[j] - sends[i]
            ctx.prove(_le(j - i + 1, capacity + rate * L + 1),
                      "at most capacity + rate*L + 1 sends in any window (%d..%d)" % (i + 1, j + 1))


def inductive(ctx, first=False):
    """One consume() from an arbitrary internal state: right after construction (first=True, any initial tokens)
    or after any earlier consume() (invariant tokens <= tokens_per_period).  Together with the preserved invariant
    this shows, for histories of ANY length, that the limiter's waits are those of the reference bucket."""
    tpp = ctx.real("tokens_per_period")
    period = ctx.real("period_duration")
    tokens = ctx.real("state_tokens")
    last = ctx.real("state_last")
    now = ctx.real("now")
    ctx.assume(tpp > 0, period > 0, now >= last)
    clock = _Clock([last, now])
    ctx.patch(token_bucket, "time", clock, both_modes=True)
    lim = token_bucket.TokenBucketLimiter(tpp, period, 0)
    lim._tokens = tokens
    if first:
        ctx.assume(tokens >= 0)          # state right after construction: any initial_tokens >= 0 (may exceed capacity)
    else:
        ctx.assume(tokens <= tpp)        # invariant established by every consume() (proved below)
    w = lim.consume()
    rate = tpp / period
    after = _rmin(tpp, tokens + (now - last) * rate) - 1
    ctx.prove(w >= 0, "inductive: wait is never negative")
    ctx.prove(_approx(w, _rmax(0, 0 - after) / rate), "inductive: wait equals debt / rate")
    ctx.prove(_approx(lim._tokens, after), "inductive: tokens refill at rate up to capacity, minus one")
    ctx.prove(lim._tokens <= tpp, "inductive: state invariant tokens <= capacity is preserved")
    ctx.cover("some request had to wait")
    ctx.cover("bucket was capped at capacity")
    ctx.cover("burst outlasted the tokens")


def jobs(tier):
    k = 4 if tier == "quick" else 6
    js = [Job("history_symbolic_config_k%d" % n, "history", dict(k=n), validate_every=3, sample_every=5)
          for n in (1, 2)]
    js += [Job("history_config_set_k%d" % n, "history", dict(k=n, config="set"), validate_every=25, sample_every=50,
               split=32 if n >= 4 else 0, max_paths=400000) for n in range(3, k + 1)]
    js.append(Job("burst_k%d" % k, "history", dict(k=k, burst=True, config="set"), validate_every=10,
                  sample_every=20))
    js.append(Job("burst_symbolic_config_k2", "history", dict(k=2, burst=True), validate_every=3, sample_every=5))
    js.append(Job("inductive_step", "inductive", validate_every=1, sample_every=2))
    js.append(Job("inductive_first_call", "inductive", dict(first=True), validate_every=1, sample_every=2))
    return js

"""C04 Execution price and trigger guarantees per order type."""
from decimal import Decimal

from symx import And, Implies, Not, Or
from symx.run import Job

from . import hist
from .exch import BUY, SELL, KINDS, World, ZERO

META = dict(
    module="scenarios.c04_prices", level="model_checking",
    bounds=dict(
        quick="one accepted order of each of the 8 classes, then 2 bars with symbolic OHLC; infinite liquidity at "
              "precisions (8,2) and (0,2) with SYMBOLIC amount and prices; VolumeShareImpact(25 %, 10 %) at precision "
              "(0,2): limit / stop-limit orders over 2 bars with volumes {10, 127.83333333} and market / stop orders "
              "over 1 bar with volumes {10, 127.83333333, 100000}, amount from {3, 1, 1000} (slippage is cubic in amount "
              "and price otherwise), prices symbolic; percentage fee with minimum; completeness clause with ample funds "
              "(1e15 of every symbol) under infinite liquidity, bar volumes from {0, 1000}; completeness after a long "
              "history: 2 pairs, symbolic traversal counter of the open-order container, bars of the other pair / "
              "listings between acceptance and the completing bar (concrete prices)",
        thorough="adds VolumeShareImpact at (8,2) and with volumes {0, 1, 33.33333333, 100000}, fee scheme none, "
                 "precisions (2,0),(8,8), 3 bars"),
    stubs=[s for s in hist.BASE_STUBS if "max/min" not in s] + ["max/min are NOT merged in this check (plain forks keep "
                                                                 "the price term a simple variable)"],
    assumptions=["exact decimals (see C01); 'up to rounding to quote precision' = half a quote unit per fill",
                 "completeness clause: amounts >= 1 whole base unit (fills whose quote amount rounds to zero are ignored "
                 "by design)",
                 "valid bars; prices >= one quote unit"],
    outside=["more than 2 (3) bars per order", "symbolic volume x symbolic amount x symbolic price jointly (z3 NIA "
             "returns unknown; the volume comes from a solver-chosen set)"],
    required_covers=["an order traded", "a limit order traded at a slipped price", "a stop was triggered inside the bar",
                     "an order was partially filled"],
)


def _fill(prev, cur):
    return cur.amount_filled - prev.amount_filled, cur.quote_amount_filled - prev.quote_amount_filled


def one_order(ctx, kind="limit", side="buy", nbars=2, ample=False, **cfg):
    init = None
    if ample:
        init = {"USD": Decimal(10) ** 15, "BTC": Decimal(10) ** 15}
    # under VolumeShareImpact the slippage is cubic in (amount, price): amounts then come from the solver-chosen set
    sym_amount = cfg.get("liq", "inf") == "inf"
    w = World(ctx, props=(), sym_amount=sym_amount, merge_minmax=False, init=init, subscribe=False, amount_hi=10 ** 9,
              namounts=3, **cfg)
    if ample:
        # completeness is asserted for non-degenerate orders: a fill whose quote amount rounds to zero is ignored by
        # design (tests/test_backtesting_exchange.py::test_small_fill_is_ignored_after_rounding); with prices >= one
        # quote unit an amount >= 1 whole base unit keeps every notional >= one quote unit
        w.amount_lo = 10 ** w.bp
    b, pre = w.feed_bar("b0")
    sd = BUY if side == "buy" else SELL
    oid = w.place("o1", kind=kind, side=sd)
    if oid is None:
        if ample:
            ctx.prove(False, "C04 with ample funds a valid order is accepted")
        return
    st = w.orders[oid]
    amount = st["amount"]
    limit = st["p1"] if kind == "limit" else (st["p2"] if kind == "stop_limit" else None)
    stop = st["p1"] if kind in ("stop", "stop_limit") else None
    slack = Decimal(1).scaleb(-w.qp) / 2
    prev = w.info(oid)
    stop_reached = False        # some bar so far had a range reaching the stop price
    reached_sym = False
    limit_reached_before = False
    for n in range(1, nbars + 1):
        was_open = prev.is_open
        b, _ = w.feed_bar("b%d" % n)
        cur = w.info(oid)
        base, quote = _fill(prev, cur)
        traded = bool(base > 0)
        if stop is not None:
            hit_now = (b.high >= stop) if sd == BUY else (b.low <= stop)
            reached_sym = Or(reached_sym, hit_now)
        if traded:
            ctx.cover("an order traded")
            if bool(cur.amount_filled < amount):
                ctx.cover("an order was partially filled")
            obligations = []
            # nobody trades better than the bar's extreme
            if sd == BUY:
                obligations.append((quote >= b.low * base - slack, "C04 a buy never trades below the bar's low"))
            else:
                obligations.append((quote <= b.high * base + slack, "C04 a sell never trades above the bar's high"))
            if limit is not None:
                if sd == BUY:
                    obligations.append((quote <= limit * base + slack,
                                        "C04 a limit / stop-limit buy never pays more than limit x base"))
                    obligations.append((b.low <= limit, "C04 a limit buy trades only in a bar whose range reaches the "
                                                        "limit"))
                    if bool(quote < limit * base - slack):
                        ctx.cover("a limit order traded at a slipped price")
                else:
                    obligations.append((quote >= limit * base - slack,
                                        "C04 a limit / stop-limit sell never receives less than limit x base"))
                    obligations.append((b.high >= limit, "C04 a limit sell trades only in a bar whose range reaches the "
                                                         "limit"))
                    if bool(quote > limit * base + slack):
                        ctx.cover("a limit order traded at a slipped price")
            if stop is not None:
                obligations.append((reached_sym, "C04 a stop / stop-limit order never trades before a bar whose range "
                                                 "reaches its stop price"))
                if bool((b.open < stop) if sd == BUY else (b.open > stop)):
                    ctx.cover("a stop was triggered inside the bar")
            if kind == "market":
                obligations.append((And(quote >= b.low * base - slack, quote <= b.high * base + slack),
                                    "C04 a market order trades inside the bar's range"))
                if sd == BUY:
                    obligations.append((quote >= b.open * base - slack, "C04 a market buy is never better than the open"))
                else:
                    obligations.append((quote <= b.open * base + slack, "C04 a market sell is never better than the open"))
            if kind == "stop":
                obligations.append((And(quote >= b.low * base - slack, quote <= b.high * base + slack),
                                    "C04 a stop order trades inside the bar's range"))
                if sd == BUY:
                    obligations.append((quote >= stop * base - slack, "C04 a stop buy is never better than its stop price"))
                else:
                    obligations.append((quote <= stop * base + slack, "C04 a stop sell is never better than its stop price"))
            for cond, label in obligations:
                ctx.prove(cond, label)
        # ---- completeness with unlimited liquidity and ample funds
        if ample and w.liq == "inf" and was_open:
            if kind == "market":
                ctx.prove(cur.amount_filled == amount, "C04 a market order is completely filled by the next bar")
            elif kind == "limit":
                reach = (b.low <= limit) if sd == BUY else (b.high >= limit)
                ctx.prove(Implies(reach, cur.amount_filled == amount),
                          "C04 a limit order is completely filled by the first bar whose range reaches its limit")
                ctx.prove(Implies(Not(reach), cur.amount_filled == 0), "C04 a limit order does not trade in a bar whose "
                                                                       "range does not reach its limit")
            elif kind == "stop":
                reach = (b.high >= stop) if sd == BUY else (b.low <= stop)
                ctx.prove(Iff_(reach, cur.amount_filled == amount),
                          "C04 a stop order is filled by the next bar exactly when that bar's range reaches its stop")
        prev = cur


def long_history(ctx, kind="limit", side="buy"):
    """Completion guarantees however long the exchange has been running and whatever else trades: two pairs, the
    open-order container's traversal counter is symbolic (periodic re-indexing included), bars of the OTHER pair and
    listings happen between acceptance and the bar that must complete the order.  Prices are concrete."""
    from .exch import run
    init = {"USD": Decimal(10 ** 9), "BTC": Decimal(10 ** 6), "ETH": Decimal(10 ** 6)}
    w = World(ctx, props=(), npairs=2, bp=8, qp=2, fee="pctmin", namounts=2, init=init)
    # (amounts of at least one whole base unit: fills whose quote amount rounds to zero are ignored by design)
    w.amounts = [Decimal("2.5"), Decimal(1000)]
    FLAT = ("100", "101", "99", "100")
    w.feed_bar("b0", pair_idx=0, ohlc=FLAT)
    w.feed_bar("b0e", pair_idx=1, ohlc=FLAT)
    sd = BUY if side == "buy" else SELL
    price = None if kind == "market" else ("50" if (sd == BUY) == (kind == "limit") else "200")
    oid = w.place("o1", kind=kind, side=sd, pair_idx=0, price=price)
    if oid is None:
        ctx.prove(False, "C04 (harness) an amply funded order is accepted")
        return
    w.e._order_mgr._orders._reindex_counter = ctx.int("reindex_counter", 0, 10 ** 9)
    for n in range(2):
        what = ctx.choice("traversal%d" % n, 3)
        if what == 2:
            run(w.e.get_open_orders())
        elif what == 1:
            w.feed_bar("t%d" % n, pair_idx=1, ohlc=FLAT)            # a bar of the other pair
        else:
            continue
    amount = w.orders[oid]["amount"]
    if kind == "market":
        w.feed_bar("b1", pair_idx=0, ohlc=FLAT)
        info = w.info(oid)
        ctx.prove(And(info.amount_filled == amount, Not(info.is_open)),
                  "C04 a market order is completely filled by the next bar")
    else:
        # limit buy at 50 / stop sell at 50: reached by a low of 10; limit sell / stop buy at 200: reached by 300
        w.feed_bar("b1", pair_idx=0, ohlc=("100", "300", "10", "100"))
        info = w.info(oid)
        label = ("C04 a limit order is completely filled by the first bar whose range reaches its limit"
                 if kind == "limit" else
                 "C04 a stop order is filled by the next bar exactly when that bar's range reaches its stop")
        ctx.prove(And(info.amount_filled == amount, Not(info.is_open)), label)


def Iff_(a, b):
    return And(Implies(a, b), Implies(b, a))


VOLS = ["10", "127.83333333", "100000"]


def jobs(tier):
    js = []

    def add(cfg, kinds=KINDS, nb=2, split=0):
        for kind in kinds:
            for side in ("buy", "sell"):
                name = "%s %s %s" % (kind, side, " ".join("%s=%s" % kv for kv in sorted(cfg.items())))
                js.append(Job(name, "one_order", dict(kind=kind, side=side, nbars=nb, **cfg), max_paths=100000,
                              validate_every=40, sample_every=100, prove_timeout=30000, split=split))
    add(dict(bp=8, qp=2))
    add(dict(bp=0, qp=2))
    # partial fills (limit / stop-limit) against off-grid liquidity; fill-or-kill kinds need one bar only
    add(dict(bp=0, qp=2, liq="vsi", vols=["10", "127.83333333"]), kinds=["limit", "stop_limit"], split=48)
    add(dict(bp=0, qp=2, liq="vsi", vols=VOLS), kinds=["market", "stop"], nb=1)
    if tier == "thorough":
        add(dict(bp=8, qp=2, liq="vsi", vols=VOLS), split=48)
        add(dict(bp=0, qp=2, liq="vsi", vols=["0", "1", "33.33333333", "100000"]), split=48)
        add(dict(bp=8, qp=2, fee="none"), nb=3)
        add(dict(bp=2, qp=0), nb=3)
        add(dict(bp=8, qp=8), nb=3)
    for kind in ("market", "limit", "stop"):
        for side in ("buy", "sell"):
            js.append(Job("completeness %s %s" % (kind, side), "one_order",
                          dict(kind=kind, side=side, nbars=2, ample=True, bp=8, qp=2, vols=["0", "1000"]),
                          validate_every=20, sample_every=50, prove_timeout=30000))
            js.append(Job("completeness after a long history, other pair trading: %s %s" % (kind, side),
                          "long_history", dict(kind=kind, side=side), validate_every=20, sample_every=50))
    return js

"""C06 Funds on hold exactly cover open orders and are released on close."""
from . import hist
from .hist import history  # noqa: F401  (resolved by the runner)

PROPS = ["C06"]
META = dict(
    module="scenarios.c06_holds", level="model_checking",
    bounds=dict(quick=hist.BOUNDS_QUICK, thorough=hist.BOUNDS_THOROUGH),
    stubs=hist.BASE_STUBS, assumptions=hist.BASE_ASSUMPTIONS, outside=hist.BASE_OUTSIDE,
    required_covers=["end of history", "an order was accepted", "a request was rejected: place"],
)


def jobs(tier):
    return hist.jobs_for(PROPS, hist.standard_plans(tier, borrow_limit_orders=False)) + extra_jobs(tier)


def extra_jobs(tier):
    return []

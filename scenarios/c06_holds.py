"""C06 Funds on hold exactly cover open orders and are released on close."""
from . import hist
from .hist import history  # noqa: F401  (resolved by the runner)

PROPS = ["C06"]
META = dict(
    module="scenarios.c06_holds", level="model_checking",
    bounds=dict(quick=hist.BOUNDS_QUICK, thorough=hist.BOUNDS_THOROUGH),
    stubs=hist.BASE_STUBS, assumptions=hist.BASE_ASSUMPTIONS, outside=hist.BASE_OUTSIDE,
    required_covers=["end of history", "an order was accepted", "a request was rejected: place"],
)


def jobs(tier):
    return hist.jobs_for(PROPS, hist.standard_plans(tier, borrow_limit_orders=False)) + extra_jobs(tier)


def extra_jobs(tier):
    # reservations that shrink over several partial fills (volume-limited liquidity, 2 bars), incl. sells whose minimum
    # fee exceeds the proceeds (they reserve quote as well)
    ps = [dict(plan="single", depth=3, bp=8, qp=2, liq="vsi", vols=["10"], namounts=3, kinds=["limit", "stop_limit"],
               min_fee="5"),
          dict(plan="single", depth=3, bp=0, qp=2, liq="vsi", vols=["10", "127.83333333"], namounts=3,
               kinds=["limit"])]
    return hist.jobs_for(PROPS, ps)

"""Dispatcher lifecycle / realtime scenarios (C14, C15) on a virtual-time asyncio loop.

Both dispatchers run as real asyncio programs on symx.vloop.VLoop (a SelectorEventLoop whose clock only advances
when every task is blocked on a timer); basana.core.dt.utc_now is rebound to the loop's virtual clock.
"""
import asyncio
import functools
import datetime
import logging

import basana as bs
from basana.core import dt as bdt, event

from symx import And, Implies, Not, Or
from symx.core import HarnessError
from symx.vloop import VLoop

EPOCH0 = 1_700_000_000.0
START = datetime.datetime.fromtimestamp(EPOCH0, tz=datetime.timezone.utc)


def ms(n):
    return datetime.timedelta(milliseconds=n)


class ProducerError(Exception):
    pass


class Boom(Exception):
    pass


class Ev(event.Event):
    def __init__(self, when, name):
        super().__init__(when)
        self.name = name


class Trace:
    def __init__(self, loop):
        self.loop = loop
        self.rows = []          # (seq, vtime, kind, name, phase)
        self.running = 0
        self.max_running = 0
        self.running_samples = []

    def add(self, kind, name, phase):
        self.rows.append((len(self.rows), self.loop.time(), kind, name, phase))

    def enter(self, key=None):
        """an event (all of its handlers together) or a job starts being handled"""
        if key is None:
            key = object()
        self.inflight = getattr(self, "inflight", {})
        self.inflight[key] = self.inflight.get(key, 0) + 1
        self.running_samples.append(len(self.inflight))
        return key

    def leave(self, key):
        self.inflight[key] -= 1
        if not self.inflight[key]:
            del self.inflight[key]


class Prod(event.Producer):
    def __init__(self, name, tr, fail_phase=None, init_delay=0.0, main_events=None, source=None, fin_delay=0.0):
        self.name, self.tr, self.fail_phase, self.init_delay = name, tr, fail_phase, init_delay
        self.fin_delay = fin_delay
        self.main_events = main_events or []      # [(delay_s, event)] pushed by main()
        self.source = source

    async def initialize(self):
        self.tr.add("producer", self.name, "init-start")
        if self.init_delay:
            await asyncio.sleep(self.init_delay)
        if self.fail_phase == "initialize":
            self.tr.add("producer", self.name, "init-fails")
            raise ProducerError(self.name + " initialize")
        self.tr.add("producer", self.name, "init-end")

    async def main(self):
        self.tr.add("producer", self.name, "main-start")
        try:
            for delay, ev in self.main_events:
                await asyncio.sleep(delay)
                self.source.push(ev)
            if self.fail_phase == "main":
                await asyncio.sleep(0.02)
                self.tr.add("producer", self.name, "main-fails")
                raise ProducerError(self.name + " main")
            await asyncio.sleep(3600)
        finally:
            self.tr.add("producer", self.name, "main-exit")

    async def finalize(self):
        self.tr.add("producer", self.name, "finalize")
        if self.fin_delay:
            try:
                await asyncio.sleep(self.fin_delay)
            except asyncio.CancelledError:
                self.tr.add("producer", self.name, "finalize-cancelled")
                raise
        self.tr.add("producer", self.name, "finalize-end")
        if self.fail_phase == "finalize":
            raise ProducerError(self.name + " finalize")


def vrun(ctx, main_coro_fn):
    """run an async scenario body on a fresh VLoop with utc_now bound to it"""
    loop = VLoop(EPOCH0)
    ctx.patch(bdt, "utc_now", loop.utc_now, both_modes=True)
    try:
        asyncio.set_event_loop(loop)
        return loop.run_until_complete(main_coro_fn(loop))
    finally:
        try:
            pend = [t for t in asyncio.all_tasks(loop) if not t.done()]
            for t in pend:
                t.cancel()
            if pend:
                loop.run_until_complete(asyncio.gather(*pend, return_exceptions=True))
        finally:
            asyncio.set_event_loop(None)
            loop.close()


# ====================================================================================== C15
def realtime_timing(ctx, nev_a=2, nev_b=1, njobs=1, max_mc=2, idle=True, window_ms=(-50, 100), horizon=0.45,
                    long_last_job=False, job_zones=False, far_jobs=()):
    lo, hi = START + ms(window_ms[0]), START + ms(window_ms[1])
    mc = ctx.int("max_concurrent", 1, max_mc)
    whens_a = [ctx.dt("when_a%d" % i, lo, hi) for i in range(nev_a)]
    whens_b = [ctx.dt("when_b%d" % i, lo, hi) for i in range(nev_b)]
    # (far_jobs: indices of jobs scheduled an hour later - never due within the horizon, but they sit in the same queue)
    HOUR = datetime.timedelta(hours=1)
    whens_j = [ctx.dt("when_job%d" % i, lo + (HOUR if i in far_jobs else ms(0)), hi + (HOUR if i in far_jobs else ms(0)))
               for i in range(njobs)]
    dur = [0.0, 0.03][ctx.choice("handler_duration", 2)]
    out = {}
    # the caller may name a job's instant in any time zone (same instant, another tzinfo label)
    zone_h = [0, 2, -3][ctx.choice("job_time_zone", 3)] if job_zones else 0
    zone = datetime.timezone(datetime.timedelta(hours=zone_h))

    async def body(loop):
        tr = Trace(loop)
        d = bs.realtime_dispatcher(max_concurrent=mc)
        errors = []
        d.on_error = lambda e: errors.append(e)
        evs_a = [Ev(w, "a%d" % i) for i, w in enumerate(whens_a)]
        evs_b = [Ev(w, "b%d" % i) for i, w in enumerate(whens_b)]
        src_a = event.FifoQueueEventSource(events=evs_a)
        src_b = event.FifoQueueEventSource(events=evs_b)
        started = {}
        busy = dict(n=0)
        idle_bad = []

        def mk(src_name):
            async def on_ev(ev):
                started[ev.name] = loop.utc_now()
                tr.add("event", ev.name, "start")
                busy["n"] += 1
                try:
                    if dur:
                        await asyncio.sleep(dur)
                finally:
                    busy["n"] -= 1
                tr.add("event", ev.name, "end")
            return on_ev
        d.subscribe(src_a, mk("a"))
        if nev_b:
            d.subscribe(src_b, mk("b"))
        for i, w in enumerate(whens_j):
            def mkjob(i):
                async def job():
                    started["job%d" % i] = loop.utc_now()
                    busy["n"] += 1
                    try:
                        if dur:
                            # (long_last_job: the last job outlives everything else that is in flight)
                            await asyncio.sleep(dur * 6 if (long_last_job and i == njobs - 1) else dur)
                    finally:
                        busy["n"] -= 1
                return job
            d.schedule(w.astimezone(zone) if zone_h else w, mkjob(i))
        idle_runs = dict(n=0)
        if idle:
            async def on_idle():
                idle_runs["n"] += 1
                if busy["n"]:
                    idle_bad.append(loop.time())
                await asyncio.sleep(0.005)
            d.subscribe_idle(on_idle)

        async def stopper():
            d.stop()
        d.schedule(START + datetime.timedelta(seconds=horizon), stopper)
        try:
            await d.run(stop_signals=[])
            out["result"] = "returned"
        except BaseException as e:       # noqa
            out["result"] = repr(e)
        out.update(started=started, errors=errors, idle_bad=idle_bad, idle_runs=idle_runs["n"],
                   evs_a=evs_a, evs_b=evs_b, end=loop.time())
    vrun(ctx, body)
    ctx.prove(out["result"] == "returned", "C15 the realtime dispatcher run ends normally", info=out["result"])
    started = out["started"]
    for evs in (out["evs_a"], out["evs_b"]):
        for ev in evs:
            if ev.name in started:
                ctx.prove(ev.when <= started[ev.name], "C15 an event is never dispatched before its time")
        delivered = [ev for ev in evs if ev.name in started]
        for x, y in zip(delivered, delivered[1:]):
            ctx.prove(x.when <= y.when, "C15 events of one source are delivered in non-decreasing time order")
            ctx.prove(started[x.name] <= started[y.name], "C15 events of one source start in source order")
        # dropped events: exactly those older than the last delivered predecessor, and they are reported
        last = None
        ndropped = 0
        for ev in evs:
            if ev.name in started:
                last = ev
            else:
                ndropped += 1
                ctx.prove(last is not None and ev.when < last.when,
                          "C15 only an event older than its predecessor from the same source is dropped (every due "
                          "event is dispatched)")
        if ndropped:
            ctx.cover("an out-of-order event was dropped")
    ndropped_total = sum(1 for evs in (out["evs_a"], out["evs_b"]) for ev in evs if ev.name not in started)
    ctx.prove(len(out["errors"]) == ndropped_total, "C15 every dropped event is reported through on_error and only "
                                                   "those", info=(len(out["errors"]), ndropped_total))
    for i, w in enumerate(whens_j):
        name = "job%d" % i
        if i in far_jobs:
            ctx.prove(name not in started, "C15 a job is never dispatched before its time")
            continue
        ctx.prove(name in started, "C15 every due job is dispatched")
        if name in started:
            ctx.prove(w <= started[name], "C15 a job is never dispatched before its time")
    ctx.prove(not out["idle_bad"], "C15 idle handlers run only while nothing is being handled", info=out["idle_bad"])
    if out["idle_runs"]:
        ctx.cover("an idle handler ran")
    if any(True for ev in out["evs_a"] if ev.name in started):
        ctx.cover("events were delivered")
    ctx.cover("run completed")


# ====================================================================================== C14
class _FactoryRestore:
    """entry for ctx.patches that reinstalls the log record factory found at the start of the path"""
    def __setattr__(self, attr, old):
        logging.setLogRecordFactory(old)


ENDINGS = ["exhausted_or_idle_stop", "stop_from_handler", "handler_error_stops", "external_cancel", "external_stop",
           "double_stop"]


def lifecycle(ctx, kind="backtesting", max_mc=3, nprod=2):
    mc = ctx.int("max_concurrent", 1, max_mc)
    fail_phase = [None, "initialize", "main", "finalize"][ctx.choice("failing_phase", 4)]
    fail_idx = ctx.choice("failing_producer", nprod) if fail_phase else 0
    ending = ENDINGS[ctx.choice("ending", len(ENDINGS))]
    dur = [0.0, 0.03, 5.0][ctx.choice("handler_duration", 3)]
    with_jobs = ctx.flag("with_scheduled_jobs")
    partial_callables = ctx.flag("handlers_and_jobs_are_partial_objects")
    app_factory = ctx.flag("application_sets_its_own_log_record_factory_before_run")
    out = {}
    factory_before = logging.getLogRecordFactory()
    ctx.patches.append((_FactoryRestore(), "factory", factory_before))     # whatever happens on this path

    async def body(loop):
        tr = Trace(loop)
        d = bs.backtesting_dispatcher(max_concurrent=mc) if kind == "backtesting" else \
            bs.realtime_dispatcher(max_concurrent=mc)
        d.on_error = lambda e: None
        if app_factory:
            # the application installs its own log record factory after creating the dispatcher and before run()
            base_factory = logging.getLogRecordFactory()

            def custom_factory(*a, **k):
                return base_factory(*a, **k)
            logging.setLogRecordFactory(custom_factory)
            out["expected_factory"] = custom_factory
        if ending == "handler_error_stops":
            d.stop_on_handler_exceptions = True
        prods, srcs = [], []
        nev = 3
        for p in range(nprod):
            # (with the stop()-from-outside endings the producers take 20 ms to finalise, so that a second stop() can
            # arrive while they do)
            pr = Prod("p%d" % p, tr, fail_phase=(fail_phase if p == fail_idx else None), init_delay=0.01 * p,
                      fin_delay=0.02 if ending in ("external_stop", "double_stop") else 0.0)
            evs = [Ev(START + ms(10 * (k + 1)) if kind == "realtime" else START + datetime.timedelta(days=k + 1),
                      "p%de%d" % (p, k)) for k in range(nev)]
            src = event.FifoQueueEventSource(producer=pr, events=evs)
            pr.source = src
            prods.append(pr)
            srcs.append((src, evs))
        handled = []

        def mk(hname, p):
            async def on_ev(ev):
                key = tr.enter(ev.name)
                tr.add("event", ev.name, "start:" + hname)
                handled.append((ev.name, hname))
                try:
                    if ending == "stop_from_handler" and ev.name == "p0e1" and hname == "h1":
                        out.setdefault("t_end_requested", loop.time())
                        d.stop()
                    if dur:
                        await asyncio.sleep(dur)
                    if ev.name == "p0e0" and hname == "h1":
                        if ending == "handler_error_stops":
                            out.setdefault("t_end_requested", loop.time())
                        raise Boom("handler failure")
                finally:
                    tr.leave(key)
                tr.add("event", ev.name, "end:" + hname)
            return on_ev
        def as_kind(fn):
            # the handlers / jobs as plain coroutine functions or as functools.partial objects (no __name__/__qualname__)
            if not partial_callables:
                return fn

            async def with_tag(tag, *a):
                return await fn(*a)
            return functools.partial(with_tag, "tag")
        for p, (src, evs) in enumerate(srcs):
            d.subscribe(src, as_kind(mk("h1", p)))
            d.subscribe(src, as_kind(mk("h2", p)))
        jobs_run = []
        if with_jobs:
            for k in range(2):
                def mkjob(k):
                    async def job():
                        key = tr.enter()
                        jobs_run.append(k)
                        try:
                            if dur:
                                await asyncio.sleep(min(dur, 0.03))
                            if k == 0:
                                raise Boom("job failure")
                        finally:
                            tr.leave(key)
                    return job
                when = (START + ms(10)) if kind == "realtime" else START + datetime.timedelta(days=1 + k)
                d.schedule(when, as_kind(mkjob(k)))
        if kind == "realtime":
            async def on_idle():
                await asyncio.sleep(0.001)
            d.subscribe_idle(on_idle)
            if ending == "exhausted_or_idle_stop":
                async def stopper():
                    d.stop()
                d.schedule(START + ms(300), stopper)
        t = asyncio.ensure_future(d.run(stop_signals=[]))
        if ending == "external_cancel":
            await asyncio.sleep([0.0, 0.015, 0.05][ctx.choice("cancel_at", 3)])
            out["finished_before_cancel"] = t.done()
            out.setdefault("t_end_requested", loop.time())
            t.cancel()
        elif ending in ("external_stop", "double_stop"):
            # stop() from another task: at 5 ms the second producer is still inside initialize()
            await asyncio.sleep([0.005, 0.015, 0.05][ctx.choice("stop_at", 3)])
            if not t.done():
                out.setdefault("t_end_requested", loop.time())
            d.stop()
            if ending == "double_stop":
                # a second stop() (a second Ctrl-C) 10 ms later: the producers are being finalised
                await asyncio.sleep(0.01)
                out["second_stop_while_running"] = not t.done()
                d.stop()
        t0 = loop.time()
        try:
            await asyncio.wait_for(asyncio.shield(t), timeout=60)      # virtual seconds; the longest legitimate run takes ~30
            out["result"] = ("returned", None)
        except asyncio.CancelledError:
            out["result"] = ("cancelled", None)
        except asyncio.TimeoutError:
            out["result"] = ("hung", None)
            t.cancel()
        except BaseException as e:       # noqa
            out["result"] = ("raised", e)
        out.update(tr=tr, handled=handled, jobs_run=jobs_run, t_end=loop.time(), prods=prods)
    vrun(ctx, body)
    tr = out["tr"]
    res, exc = out["result"]
    rows = tr.rows
    names = [p.name for p in out["prods"]]

    def seq(name, phase):
        return [r[0] for r in rows if r[2] == "producer" and r[3] == name and r[4] == phase]
    # ---- producer lifecycle
    init_ends = [seq(n, "init-end") for n in names]
    main_starts = [s for n in names for s in seq(n, "main-start")]
    if main_starts:
        ctx.prove(all(len(x) == 1 for x in init_ends) and max(x[0] for x in init_ends) < min(main_starts),
                  "C14 every producer's main loop starts only after all producers were initialised")
    if fail_phase == "initialize":
        ctx.prove(not main_starts, "C14 no main loop starts when an initialize fails")
    for n in names:
        ctx.prove(len(seq(n, "finalize")) == 1, "C14 every producer is finalised exactly once", info=(n, fail_phase,
                                                                                                      ending))
        if ending != "external_cancel":
            # (only the caller's own cancellation may interrupt a finalizer)
            ctx.prove(len(seq(n, "finalize-end")) == 1 and not seq(n, "finalize-cancelled"),
                      "C14 every producer's finalisation runs to completion", info=(n, fail_phase, ending))
    if out.get("second_stop_while_running"):
        ctx.cover("stop() was called again while the run was ending")
    # ---- outcome of run()
    if ending == "external_cancel" and out.get("finished_before_cancel"):
        ctx.prove(res in ("returned", "raised"), "C14 run() outcome is unaffected by a cancellation after it ended")
    elif ending == "external_cancel":
        ok = res == "cancelled" or (res == "raised" and isinstance(exc, ProducerError) and fail_phase in
                                    ("initialize", "main")) or (res == "returned" and False)
        ctx.prove(ok, "C14 an externally cancelled run raises the caller's cancellation (or the producer's own error)",
                  info=repr(out["result"]))
    elif fail_phase in ("initialize", "main"):
        ok = (res == "raised" and isinstance(exc, ProducerError)) or \
             (fail_phase == "main" and res == "returned") or \
             (ending in ("external_stop", "double_stop") and res == "returned")  # the run may end before the failure
        ctx.prove(ok, "C14 a failing producer makes run() raise that producer's error, never an internal error",
                  info=repr(out["result"]))
    else:
        ctx.prove(res == "returned", "C14 run() returns normally (never an internal error)", info=repr(out["result"]))
    ctx.prove(res != "hung", "C14 the run ends")
    # ---- prompt end: handlers in flight are cancelled, not awaited
    fails = [r[1] for r in rows if r[4] in ("init-fails", "main-fails")]
    t_req = min([out["t_end_requested"]] if "t_end_requested" in out else [] + fails) if \
        ("t_end_requested" in out or fails) else None
    if t_req is not None and res != "hung":
        ctx.prove(out["t_end"] - t_req < 1.0,
                  "C14 the run ends promptly once it has to end (handlers in flight are cancelled, not awaited)",
                  info=(out["t_end"] - t_req, ending, fail_phase, dur))
        if dur == 5.0:
            ctx.cover("a run ended while a long handler was in flight")
    # ---- bounded concurrency
    for n in tr.running_samples:
        ctx.prove(n <= mc, "C14 never more than max_concurrent events and jobs are handled concurrently")
    # ---- fault isolation: the failing handler of p0e0 does not suppress the sibling handler nor later events
    # (in the realtime run the stopper fires after 300 ms: with 5 s handlers not everything can have been handled)
    if ending == "exhausted_or_idle_stop" and fail_phase in (None, "finalize") and \
            (kind == "backtesting" or dur < 1.0):
        hs = out["handled"]
        for p in range(len(names)):
            for k in range(3):
                for h in ("h1", "h2"):
                    ctx.prove(("p%de%d" % (p, k), h) in hs,
                              "C14 an exception in one handler or job does not prevent other handlers, later events "
                              "or later jobs", info=(p, k, h))
        if with_jobs:
            ctx.prove(sorted(out["jobs_run"]) == [0, 1], "C14 a failing job does not prevent later jobs")
        ctx.cover("a full run with failing handler and job completed")
    # ---- logging behaves as before the run
    ctx.prove(logging.getLogRecordFactory() is out.get("expected_factory", factory_before),
              "C14 the process-wide log record factory is restored however the run ends",
              info=(kind, fail_phase, ending))
    try:
        logging.getLogRecordFactory()("verif", logging.WARNING, __file__, 1, "msg", (), None)
        log_ok = True
    except Exception:
        log_ok = False
    if logging.getLogRecordFactory() is not factory_before:
        logging.setLogRecordFactory(factory_before)
    ctx.prove(log_ok, "C14 creating a log record after the run never fails")
    ctx.cover("run completed")
    if res == "raised":
        ctx.cover("run raised the producer's error")
    if res == "cancelled":
        ctx.cover("run was cancelled externally")

"""C12 Backtesting dispatcher: global time order and exactly-once delivery."""
from symx.run import Job
from .disp import scenario  # noqa: F401

META = dict(
    module="scenarios.c12_dispatch", level="model_checking",
    bounds=dict(
        quick="real BacktestingDispatcher on asyncio; 2x2, 3x2 and 2x3 (sources x events) with symbolic microsecond "
              "timestamps (per-source non-decreasing: the premise), a derived source fed by a handler, duplicate "
              "subscriptions, one front-running and one trailing catch-all handler, a solver-chosen handler profile "
              "(8 patterns of 0..4 suspension points and raising handlers), scheduled jobs next to the events (one scheduled "
              "by a handler for any time, also one the clock has passed), handlers as coroutine functions / "
              "functools.partial objects / callable instances / bound methods looked up afresh for the duplicate "
              "subscription / plain callables returning a Task (2x2), max_concurrent symbolic in 1..3",
        thorough="adds 3x3 without suspension/raise (max_concurrent 1..4) and 2x4 with profiles (max_concurrent 1..2)"),
    stubs=["logging disabled (no log record is formatted on proxies)", "uuid.uuid4 deterministic"],
    assumptions=["every source yields events in non-decreasing time order (premise of the statement)",
                 "cross-source order among equal timestamps is not asserted (unspecified by the statement)"],
    outside=["more sources/events than the stated shapes", "handlers that block on external I/O"],
    required_covers=["run completed", "events were delivered"],
)


def jobs(tier):
    big = dict(split=200, max_paths=3000000, validate_every=500, sample_every=1000)
    js = [
        Job("2x2 full", "scenario", dict(props=["C12"], nsrc=2, nev=2, max_mc=3), validate_every=50, sample_every=100),
        Job("3x2 full", "scenario", dict(props=["C12"], nsrc=3, nev=2, max_mc=3), **big),
        Job("2x3 full", "scenario", dict(props=["C12"], nsrc=2, nev=3, max_mc=3), **big),
        Job("1x3 sniffers only", "scenario", dict(props=["C12"], nsrc=1, nev=3, max_mc=2, derived=False),
            validate_every=50, sample_every=100),
        Job("2x2 full, handlers that are functools.partial objects / callable instances / bound methods / callables "
            "returning a Task", "scenario",
            dict(props=["C12"], nsrc=2, nev=2, max_mc=3, handler_kinds=True), **big),
    ]
    # scheduled jobs next to the events: one scheduled up front, one scheduled by a handler for any time (also a time
    # the clock has already passed): the clock and the delivery order stay monotone
    js.append(Job("2x2 events and jobs, one scheduled from a handler for any time", "scenario",
                  dict(props=["C12"], nsrc=2, nev=2, njobs=1, max_mc=2, derived=False, sniffers=False, dup=False,
                       susp=False, raising=False, job_from_handler=True), **big))
    if tier == "thorough":
        js += [
            Job("3x3 plain", "scenario", dict(props=["C12"], nsrc=3, nev=3, max_mc=4, susp=False, raising=False),
                **dict(big, split=600)),
            Job("2x4 full", "scenario", dict(props=["C12"], nsrc=2, nev=4, max_mc=2), **dict(big, split=600)),
        ]
    return js

"""C08 Fills respect bar liquidity and instrument precision."""
from . import hist
from .hist import history  # noqa: F401  (resolved by the runner)

PROPS = ["C08"]
META = dict(
    module="scenarios.c08_liquidity", level="model_checking",
    bounds=dict(quick=hist.BOUNDS_QUICK + "; competition plans (an earlier order followed by a funded market sell), "
                "partial fills against off-grid liquidity, precisions (2,0) [all classes] and (8,8) [market, limit]",
                thorough=hist.BOUNDS_THOROUGH),
    stubs=hist.BASE_STUBS, assumptions=hist.BASE_ASSUMPTIONS, outside=hist.BASE_OUTSIDE,
    required_covers=["end of history", "an order was accepted", "a request was rejected: place"],
)


def jobs(tier):
    return hist.jobs_for(PROPS, hist.standard_plans(tier)) + extra_jobs(tier)


def extra_jobs(tier):
    # competition for one bar's liquidity: an earlier order (possibly unfunded) followed by a funded market sell
    ps = [dict(plan="pair", depth=2, bp=0, qp=2, liq="vsi", vols=["40", "127.83333333"], namounts=2, fee="none",
               second="market_sell", vol_limit="25", impact="0"),
          dict(plan="pair", depth=2, bp=8, qp=2, liq="vsi", vols=["10", "100000"], namounts=3, fee="none",
               second="market_sell", sides=["buy"])]
    # partial fills against liquidity that is not a multiple of the base precision (truncated base, scaled quote)
    ps += [dict(plan="single", depth=2, bp=0, qp=2, liq="vsi", vols=["10", "127.83333333"], namounts=3,
                kinds=["limit", "stop_limit"]),
           dict(plan="single", depth=2, bp=2, qp=2, liq="vsi", vols=["10.55", "127.83333333"], namounts=3,
                kinds=["limit"])]
    # other precision configurations (a quote precision of 0 and equal precisions), every order class
    ps += [dict(plan="single", depth=2, bp=2, qp=0, kinds=["stop", "stop_limit"]),      # (market, limit: standard plans)
           dict(plan="single", depth=2, bp=8, qp=8, kinds=["market", "limit"])]
    return hist.jobs_for(PROPS, ps)

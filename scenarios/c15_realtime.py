"""C15 Realtime dispatcher never runs anything early and keeps per-source order."""
from symx.run import Job
from .rt import realtime_timing  # noqa: F401

META = dict(
    module="scenarios.c15_realtime", level="model_checking",
    bounds=dict(
        quick="real RealtimeDispatcher on a virtual-time asyncio loop, horizon 0.3 virtual s (30 loop iterations of "
              "10 ms); shapes (A: 2 events + 1 job) and (A: 1 event, B: 1 event, 1 job): three symbolic instants "
              "(microseconds; also A: 1 event + 2 jobs, the second job lasting 6x longer; and A: 1 event + 1 job whose time is given in UTC, UTC+2 or UTC-3; and 6 jobs, three of them "
              "an hour later) in [start - 30 ms, start + 60 ms] (past, future, out of order within a source), and A: 2 "
              "events in [start - 50 ms, start + 100 ms]; handler duration from {0, 30 ms}; one idle handler; "
              "max_concurrent symbolic in 1..2",
        thorough="adds (A: 2, B: 1, 1 job) with four symbolic instants and A: 3 events in the wide window"),
    stubs=["basana.core.dt.utc_now -> virtual clock of the loop", "asyncio loop clock virtual (VLoop)",
           "logging disabled"],
    assumptions=["events are already queued when the run starts (arrival pattern = their timestamps relative to the "
                 "clock)", "'nothing is being handled' refers to event handlers and jobs; idle handlers may overlap "
                 "each other"],
    outside=["wall-clock scheduling jitter of a real loop", "more symbolic instants than stated"],
    required_covers=["run completed", "events were delivered", "an out-of-order event was dropped",
                     "an idle handler ran"],
)


def jobs(tier):
    big = dict(split=300, max_paths=3000000, validate_every=400, sample_every=800)
    w = (-30, 60)
    js = [Job("A2 J1", "realtime_timing", dict(nev_a=2, nev_b=0, njobs=1, max_mc=2, window_ms=w, horizon=0.3), **big),
          Job("A1 B1 J1", "realtime_timing", dict(nev_a=1, nev_b=1, njobs=1, max_mc=2, window_ms=w, horizon=0.3),
              **big),
          Job("A1 J2, the second job runs 6x longer", "realtime_timing",
              dict(nev_a=1, nev_b=0, njobs=2, max_mc=2, window_ms=w, horizon=0.3, long_last_job=True), **big),
          Job("A1 J1, the job's time given in another time zone", "realtime_timing",
              dict(nev_a=1, nev_b=0, njobs=1, max_mc=1, window_ms=w, horizon=0.3, job_zones=True), **big),
          Job("J6: three jobs due within the horizon, three an hour later, every scheduling order of their times",
              "realtime_timing", dict(nev_a=0, nev_b=0, njobs=6, max_mc=1, window_ms=(0, 30), horizon=0.3, idle=False,
                                      far_jobs=(1, 4, 5)), **big),
          Job("A3 (three events of one source)", "realtime_timing",
              dict(nev_a=3, nev_b=0, njobs=0, max_mc=1, window_ms=w, horizon=0.3, idle=False), **big),
          Job("A2 only, no idle handler", "realtime_timing", dict(nev_a=2, nev_b=0, njobs=0, max_mc=1, idle=False),
              validate_every=50, sample_every=100)]
    if tier == "thorough":
        js.append(Job("A2 B1 J1", "realtime_timing", dict(nev_a=2, nev_b=1, njobs=1, max_mc=2, window_ms=w,
                                                          horizon=0.3), **dict(big, split=1000, max_paths=20000000)))
        js.append(Job("A3 J0 wide", "realtime_timing", dict(nev_a=3, nev_b=0, njobs=0, max_mc=2), **dict(big, split=1000)))
    return js

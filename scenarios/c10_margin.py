"""C10 Borrowing is refused when the margin requirement is not met."""
import datetime
from decimal import Decimal

from basana.backtesting import errors
from basana.backtesting.lending import margin

from symx import And, Implies, Not, Or, ite, smax
from symx.run import Job

from . import hist
from .exch import BUY, SELL, World, ZERO, run

META = dict(
    module="scenarios.c10_margin", level="model_checking",
    bounds=dict(
        quick="arbitrary symbolic account (incl. empty and zero-equity: balances of USD/BTC/ETH symbolic >= 0, an "
              "optional earlier loan), 2 priced pairs with closes from {100, 31234.56} x {2.5, 1800}, margin requirement "
              "from {0, 0.25, 0.5, 1, 2}, interest 7 %/day in USD with minimum {0, 0.01}; the loan under test: "
              "create_loan(symbol in {USD, BTC, ETH}, symbolic amount) and limit/market orders with auto-borrow; an "
              "open limit order holding funds at the time of the request; two BTC loans of which one is repaid before "
              "the request, with no margin required for USD; a loan in a "
              "symbol whose pair has had no bar yet (valued by the oracle at either candidate price); NoLoans: "
              "every borrow request",
        thorough="adds a second earlier loan, interest symbol != borrowed symbol, symbolic margin requirement with 2 "
                 "decimals in [0, 3]"),
    stubs=hist.BASE_STUBS + ["closes come from a solver-chosen set so that equity and used margin stay linear"],
    assumptions=hist.BASE_ASSUMPTIONS + ["equity = sum over symbols of max(0, available + hold - borrowed) valued at the "
                                          "last closes in the lending quote symbol (the code's and the docs' notion)"],
    outside=["more than 2 priced pairs / 2 earlier loans", "margin calls (not implemented by basana)"],
    required_covers=["a loan was granted", "a borrow request was refused", "a zero-equity account asked for a loan",
                     "an auto-borrow order was accepted", "something was borrowed and sold before the request",
                     "an open order held funds when the loan was requested",
                     "an earlier loan was repaid before the request"],
)

CLOSES = {"BTC": ["100", "31234.56"], "ETH": ["2.5", "1800"]}


def equity_and_used(w, bal):
    """independent valuation (in USD) from what the public API reports and the bars fed; valuing everything in USD
    instead of the lending quote symbol only rescales both sides of the inequality by a positive price"""
    eq, used = ZERO, ZERO
    for s in w.symbols:
        b = bal[s]
        price = Decimal(1) if s == "USD" else w.last_close[[p for p in w.pairs if p.base_symbol == s][0]]
        net = b.available + b.hold - b.borrowed
        eq = eq + smax(ZERO, net) * price
        used = used + b.borrowed * price * getattr(w, "req_by_symbol", {}).get(s, w.margin_req)
    return eq, used


def borrow(ctx, path="create_loan", lend="margin", earlier=1, margin_req="0.5", min_interest="0", kind="limit",
           side="buy", lend_quote="USD", req_overrides=None, npairs=2, rebar=False, unpriced=False, open_order=False, earlier_symbol=None, repay_first=False):
    if margin_req == "symbolic":
        margin_req = ctx.dec("margin_requirement", 2, lo=0, hi=300)
    init = {"BTC": Decimal(0)} if earlier == "short" else None
    w = World(ctx, props=(), lend=lend, npairs=npairs, closes=None, margin_req=margin_req, min_interest=min_interest,
              subscribe=False, namounts=2, init=init, fee="none" if earlier == "short" else "pctmin",
              lend_quote=lend_quote, req_overrides=req_overrides)
    # one bar per pair with a solver-chosen close
    for i, pair in enumerate(w.pairs):
        if unpriced and i == 1:
            # no bar of this pair yet: the exchange cannot value the symbol.  The oracle values it at the market
            # price the exchange has not seen (a solver choice): whatever that price is, the requirement must hold
            w.last_close[pair] = Decimal(ctx.pick("unseen_price_" + pair.base_symbol, CLOSES[pair.base_symbol]))
            continue
        w.closes = CLOSES[pair.base_symbol]
        w.feed_bar("b%d" % i, pair_idx=i)
    w.closes = None
    if lend == "none":
        lid = w.create_loan("loan")
        ctx.prove(lid is None, "C10 without a lending strategy every loan request fails")
        oid = w.place("o1", kind=kind, side=BUY if side == "buy" else SELL, auto_borrow=True)
        if oid is not None:
            info = w.info(oid)
            ctx.prove(len(info.loan_ids) == 0 and not w.snapshot()["open_loans"],
                      "C10 without a lending strategy an auto-borrow order never borrows")
        return
    if earlier == "short":
        # an earlier short sale: BTC is borrowed by an auto-borrow market sell and sold on the next bar, so that something
        # is borrowed in a symbol whose balance is exactly zero when the loan under test is requested
        oid0 = w.place("short", kind="market", side=SELL, auto_borrow=True)
        w.closes = CLOSES["BTC"]
        w.feed_bar("b_short", pair_idx=0)
        w.closes = None
        if oid0 is not None and bool(w.info(oid0).amount_filled > 0):
            ctx.cover("something was borrowed and sold before the request")
        earlier = 0
    earlier_ids = []
    for n in range(earlier):
        earlier_ids.append(w.create_loan("earlier%d" % n, symbol=earlier_symbol))

    if rebar:
        # prices move between the earlier loan and the request: the valuation must use the LAST closes
        for i, pair in enumerate(w.pairs):
            w.closes = CLOSES[pair.base_symbol]
            w.feed_bar("rb%d" % i, pair_idx=i)
        w.closes = None
    if repay_first and earlier_ids and earlier_ids[0] is not None:
        # repaying one loan (principal + a day's interest at the new price) can leave the account without any equity
        # while another loan is still open
        if w.repay(earlier_ids[0]):
            ctx.cover("an earlier loan was repaid before the request")
    if open_order:
        # an accepted, still open order holds funds when the loan is requested (funds on hold count once in equity)
        roid = w.place("resting", kind="limit", side=None, pair_idx=0)
        if roid is not None:
            ctx.cover("an open order held funds when the loan was requested")
    pre = w.balances()
    eq0, used0 = equity_and_used(w, pre)
    if bool(eq0 == 0):
        ctx.cover("a zero-equity account asked for a loan")
    loans_before = set(w.snapshot()["open_loans"])
    if path == "create_loan":
        lid = w.create_loan("loan", symbol=w.pairs[1].base_symbol if unpriced else None)
        granted = lid is not None
    else:
        oid = w.place("o1", kind=kind, side=BUY if side == "buy" else SELL, auto_borrow=True)
        granted = oid is not None and bool(set(w.snapshot()["open_loans"]) - loans_before)
        if oid is not None:
            ctx.cover("an auto-borrow order was accepted")
    post = w.balances()
    eq1, used1 = equity_and_used(w, post)
    if granted:
        ctx.cover("a loan was granted")
        ctx.prove(eq1 >= used1,
                  "C10 a loan is only granted if equity after the loan >= margin requirement x value of everything "
                  "borrowed", info=(path, margin_req))
    else:
        ctx.cover("a borrow request was refused")


def jobs(tier):
    js = []
    reqs = ["0", "0.25", "0.5", "1", "2"]
    for req in reqs:
        for mi in ("0", "0.01"):
            for earlier in (0, 1):
                js.append(Job("create_loan req=%s min_interest=%s earlier=%d" % (req, mi, earlier), "borrow",
                              dict(path="create_loan", margin_req=req, min_interest=mi, earlier=earlier),
                              validate_every=20, sample_every=50, max_paths=200000, split=0))
    for req in ("0.5", "1"):
        for kind in ("limit", "market"):
            for side in ("buy", "sell"):
                js.append(Job("auto-borrow %s %s req=%s" % (kind, side, req), "borrow",
                              dict(path="order", margin_req=req, earlier=0, kind=kind, side=side),
                              validate_every=20, sample_every=50, max_paths=200000))
    for req in ("0.5", "1"):
        js.append(Job("create_loan after a short sale req=%s" % req, "borrow",
                      dict(path="create_loan", margin_req=req, earlier="short"), validate_every=20, sample_every=50,
                      max_paths=200000, split=32))
    # per-symbol lending conditions (BTC stricter than the default) and a lending quote symbol priced through the
    # inverse pair (accounts valued in BTC with only BTC/USD bars)
    for earlier in (0, 1):
        js.append(Job("create_loan per-symbol requirement earlier=%d" % earlier, "borrow",
                      dict(path="create_loan", margin_req="0.25", earlier=earlier, req_overrides={"BTC": "1.5"}),
                      validate_every=20, sample_every=50, max_paths=200000))
        js.append(Job("create_loan valued in BTC (inverse pair) earlier=%d" % earlier, "borrow",
                      dict(path="create_loan", margin_req="0.5", earlier=earlier, lend_quote="BTC", npairs=1),
                      validate_every=20, sample_every=50, max_paths=200000))
    js.append(Job("create_loan valued in BTC after a price move", "borrow",
                  dict(path="create_loan", margin_req="0.5", earlier=1, lend_quote="BTC", npairs=1, rebar=True),
                  validate_every=20, sample_every=50, max_paths=200000, split=32))
    js.append(Job("create_loan after a price move", "borrow",
                  dict(path="create_loan", margin_req="0.5", earlier=1, rebar=True), validate_every=20,
                  sample_every=50, max_paths=200000, split=32))
    for req in ("0.5", "1"):
        js.append(Job("create_loan while an open order holds funds req=%s" % req, "borrow",
                      dict(path="create_loan", margin_req=req, earlier=0, open_order=True), validate_every=20,
                      sample_every=50, max_paths=200000, split=32))
    js.append(Job("auto-borrow limit buy while an open order holds funds", "borrow",
                  dict(path="order", margin_req="0.5", earlier=0, kind="limit", side="buy", open_order=True),
                  validate_every=20, sample_every=50, max_paths=200000, split=32))
    js.append(Job("create_loan after repaying one of two BTC loans, no margin required for USD", "borrow",
                  dict(path="create_loan", margin_req="0.5", min_interest="0", earlier=2, earlier_symbol="BTC",
                       rebar=True, repay_first=True, req_overrides={"USD": "0"}, npairs=1), validate_every=20,
                  sample_every=50,
                  max_paths=300000, split=64))
    for req in ("0.5", "0"):
        js.append(Job("create_loan in a symbol that has no price yet req=%s" % req, "borrow",
                      dict(path="create_loan", margin_req=req, earlier=0, unpriced=True), validate_every=20,
                      sample_every=50, max_paths=200000))
    js.append(Job("NoLoans", "borrow", dict(lend="none", earlier=0), validate_every=10, sample_every=20))
    if tier == "thorough":
        for earlier in (0, 1):
            js.append(Job("create_loan symbolic margin requirement earlier=%d" % earlier, "borrow",
                          dict(path="create_loan", margin_req="symbolic", earlier=earlier), validate_every=20,
                          sample_every=50, max_paths=500000, split=64, prove_timeout=60000))
        for req in ("0.25", "2"):
            for kind in ("limit", "market", "stop"):
                for side in ("buy", "sell"):
                    js.append(Job("auto-borrow %s %s req=%s (thorough)" % (kind, side, req), "borrow",
                                  dict(path="order", margin_req=req, earlier=1, kind=kind, side=side),
                                  validate_every=40, sample_every=100, max_paths=500000, split=32))
        for req in ("0.25", "0.5"):
            js.append(Job("create_loan req=%s two earlier loans" % req, "borrow",
                          dict(path="create_loan", margin_req=req, earlier=2), validate_every=50, sample_every=100,
                          split=64, max_paths=2000000))
    return js

"""C09 Percentage fees are exact, rounded up once, never negative."""
import datetime
import decimal
from decimal import Decimal

import basana as bs
from basana.backtesting import config, fees, order_mgr, orders
from basana.backtesting.value_map import ValueMap
from basana.core.pair import Pair, PairInfo

from symx import And, Implies, Not, Or, round_up, smax
from symx.run import Job

from . import hist
from .exch import BUY, SELL, KINDS, World, ZERO, patch_minmax

PAIR = Pair("BTC", "USD")
T0 = datetime.datetime(2020, 1, 1, tzinfo=datetime.timezone.utc)

META = dict(
    module="scenarios.c09_fees", level="model_checking",
    bounds=dict(
        quick="unit: real Percentage.calculate_fees + OrderManager._round_fees + Order.add_fill on a real LimitOrder, "
              "k <= 3 fills with symbolic quote amounts (on the quote grid, buy and sell), symbolic minimum fee, "
              "percentage from {0, 0.1, 0.25, 1, 99.9999} (quick) at quote precisions 2 and 0 (k <= 3) and 12 (k <= 2), and at pair precision 2 with the quote symbol's own precision "
              "set to 8 / 0 / 4 (k <= 2); "
              "integration: limit / "
              "stop-limit orders partially filled over 2 bars under VolumeShareImpact, every fee scheme incl. NoFee",
        thorough="k <= 4 fills, percentage symbolic with 4 decimals in [0, 100), quote precision 8"),
    stubs=hist.BASE_STUBS, assumptions=hist.BASE_ASSUMPTIONS,
    outside=["more fills per order than stated", "fee strategies other than NoFee / Percentage"],
    required_covers=["the minimum fee applied", "the percentage applied", "a later fill paid no additional fee",
                     "an order traded"],
)


def unit(ctx, k=3, qp=2, side="buy", pct_mode="set", symbol_precisions=False):
    """The fee pipeline in isolation: k partial fills of one order."""
    patch_minmax(ctx)
    if pct_mode == "set":
        pct = Decimal(ctx.pick("percentage_choice", ["0", "0.1", "0.25", "1", "99.9999"]))
    else:
        pct = ctx.dec("percentage", 4, lo=0, hi=999999)
    minfee = ctx.dec("min_fee", qp, lo=0, hi=10 ** 9)
    fs = fees.Percentage(pct, min_fee=minfee)
    op = BUY if side == "buy" else SELL
    o = orders.LimitOrder("1", op, PAIR, Decimal(10 ** 9), Decimal(1), orders.OrderState.OPEN)
    cfg = config.Config(None, PairInfo(8, qp))
    if symbol_precisions:
        # the quote SYMBOL may have its own precision (set_symbol_precision), different from the pair's quote precision:
        # fees are rounded up to the pair's quote precision whatever it is
        sp = [8, 0, qp + 2][ctx.choice("quote_symbol_precision", 3)]
        cfg.set_symbol_info("USD", config.SymbolInfo(precision=sp))
        cfg.set_symbol_info("BTC", config.SymbolInfo(precision=8))
        cfg.set_pair_info(PAIR, PairInfo(8, qp))        # (pair-specific info: it takes precedence over the symbols')
    om = order_mgr.OrderManager.__new__(order_mgr.OrderManager)
    om._ctx = type("C", (), {"config": cfg})()
    total_q = ZERO
    sgn = 1 if op == BUY else -1
    prev_charged = ZERO
    for i in range(k):
        q = ctx.dec("quote%d" % i, qp, lo=1, hi=10 ** 10)
        b = ctx.dec("base%d" % i, 8, lo=1, hi=10 ** 8)
        bu = ValueMap({"BTC": b * sgn, "USD": q * -sgn})
        f = ValueMap(fs.calculate_fees(o, bu))
        om._round_fees(f, PAIR)
        ctx.prove(set(f) <= {"USD"}, "C09 fees are charged in the quote symbol only")
        o.add_fill(T0, bu, f)
        total_q = total_q + q
        info = o.get_order_info()
        charged = info.fees.get("USD", ZERO)
        due = total_q * pct / Decimal(100)
        expected = round_up(smax(due, minfee), qp)
        ctx.prove(charged == expected,
                  "C09 total fee == max(percentage of the traded quote, minimum) rounded up to quote precision, after "
                  "fill %d" % (i + 1))
        ctx.prove(charged >= 0, "C09 fees are never negative")
        ctx.prove(charged >= prev_charged, "C09 a later fill never refunds fees")
        ctx.prove(set(info.fees) <= {"USD"}, "C09 reported fees are in the quote symbol only")
        if bool(due < minfee):
            ctx.cover("the minimum fee applied")
        else:
            ctx.cover("the percentage applied")
        if i > 0 and bool(charged == prev_charged):
            ctx.cover("a later fill paid no additional fee")
        prev_charged = charged
    ctx.cover("an order traded")


def integration(ctx, kind="limit", side="buy", fee="pctmin", nbars=2, **cfg):
    """OrderInfo.fees vs OrderInfo.quote_amount_filled through the whole exchange, partial fills included."""
    w = World(ctx, props=(), fee=fee, subscribe=False, namounts=3, **cfg)
    w.feed_bar("b0")
    oid = w.place("o1", kind=kind, side=BUY if side == "buy" else SELL)
    if oid is None:
        info0 = None
    for n in range(1, nbars + 1):
        w.feed_bar("b%d" % n)
        if oid is None:
            continue
        info = w.info(oid)
        charged = info.fees.get("USD", ZERO)
        if fee == "none":
            ctx.prove(info.fees == {}, "C09 the no-fee scheme never charges anything")
            continue
        ctx.prove(set(info.fees) <= {"USD"}, "C09 reported fees are in the quote symbol only")
        traded = info.amount_filled > 0
        expected = w.fee_of(info.quote_amount_filled)
        if bool(traded):
            ctx.cover("an order traded")
            if bool(info.quote_amount_filled > 0):
                ctx.prove(charged == expected,
                          "C09 an order that traded pays max(pct of its total traded quote, minimum) rounded up, however "
                          "many fills it took")
        else:
            ctx.prove(charged == 0, "C09 an order that never traded pays nothing")
        ctx.prove(charged >= 0, "C09 fees are never negative")


def jobs(tier):
    js = []
    k = 3 if tier == "quick" else 4
    for qp in ((2, 0) if tier == "quick" else (2, 0, 8)):
        for side in ("buy", "sell"):
            for kk in range(1, k + 1):
                js.append(Job("unit k=%d qp=%d %s" % (kk, qp, side), "unit", dict(k=kk, qp=qp, side=side),
                              validate_every=10, sample_every=30, split=64 if kk >= 3 else 0, max_paths=300000,
                              prove_timeout=30000))
    # the quote symbol's own precision differs from the pair's quote precision
    for side in ("buy", "sell"):
        for kk in (1, 2):
            js.append(Job("unit k=%d qp=2 %s, quote symbol precision from {8, 0, 4}" % (kk, side), "unit",
                          dict(k=kk, qp=2, side=side, symbol_precisions=True), validate_every=10, sample_every=30,
                          max_paths=300000, prove_timeout=30000))
    # a quote precision finer than 8 decimals (nothing in the fee pipeline may assume 8)
    for side in ("buy", "sell"):
        for kk in (1, 2):
            js.append(Job("unit k=%d qp=12 %s" % (kk, side), "unit", dict(k=kk, qp=12, side=side), validate_every=10,
                          sample_every=30, max_paths=300000, prove_timeout=30000))
    if tier == "thorough":
        for side in ("buy", "sell"):
            js.append(Job("unit symbolic pct k=2 %s" % side, "unit", dict(k=2, qp=2, side=side, pct_mode="symbolic"),
                          validate_every=10, sample_every=30, split=64, max_paths=300000, prove_timeout=60000))
    vols = ["10", "127.83333333", "100000"]
    for fee in ("pctmin", "pct", "none"):
        for kind in ("limit", "stop_limit", "market"):
            for side in ("buy", "sell"):
                js.append(Job("integration %s %s %s" % (fee, kind, side), "integration",
                              dict(kind=kind, side=side, fee=fee, bp=0, qp=2, liq="vsi", vols=vols),
                              validate_every=30, sample_every=80, max_paths=100000))
    return js

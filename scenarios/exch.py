"""Shared driver + independent oracle for the backtesting exchange properties (C01, C02, C04-C11).

The driver talks to the real basana.backtesting.exchange.Exchange through its public coroutines (stepped with
send(None): they never suspend) and delivers bars through Exchange._on_bar_event with the dispatcher clock set the
way BacktestingDispatcher._dispatch_events sets it.  The oracle keeps its own ledger from what the public API
reports (get_orders, get_loans, get_balances) and from the bars it fed; it never reads basana's intermediate values.
"""
import datetime
import decimal
from decimal import Decimal

import basana as bs
from basana.backtesting import errors, exchange as bex, fees, lending, liquidity, orders as bt_orders, order_mgr
from basana.backtesting.lending import margin
from basana.core import bar
from basana.core.pair import Pair, PairInfo

from symx import And, Iff, Implies, Not, Or, SymDec, ite, on_grid, round_half_even, round_up, smax, smin, trunc
from symx.core import Abort, Ctx, HarnessError

BUY, SELL = bs.OrderOperation.BUY, bs.OrderOperation.SELL
T0 = datetime.datetime(2020, 1, 1, tzinfo=datetime.timezone.utc)
DAY = datetime.timedelta(days=1)
ZERO = Decimal(0)
KINDS = ["market", "limit", "stop", "stop_limit"]
_ABSENT = object()

PRICE_HI = 10 ** 9          # coefficient bound for prices (units of quote precision)
BAL_HI = 10 ** 12           # coefficient bound for balances
VOL_HI = 10 ** 12


def run(coro):
    try:
        coro.send(None)
    except StopIteration as e:
        return e.value
    coro.close()
    raise HarnessError("exchange coroutine suspended")


def patch_minmax(ctx):
    """max/min inside the fill arithmetic merge into If-terms instead of forking (identical on ordinary values)."""
    for mod in (bt_orders, order_mgr, fees, margin, liquidity):
        for name, f in (("max", smax), ("min", smin)):
            old = mod.__dict__.get(name, _ABSENT)
            if ctx.mode != "sym":
                continue
            ctx.patches.append((_ModAttr(mod, name), "v", old))
            mod.__dict__[name] = f


class _ModAttr:
    """adapter so that Ctx.unpatch (setattr(obj, attr, old)) can also delete a name that was absent"""
    def __init__(self, mod, name):
        object.__setattr__(self, "mod", mod)
        object.__setattr__(self, "name", name)

    def __setattr__(self, attr, old):
        if old is _ABSENT:
            self.mod.__dict__.pop(self.name, None)
        else:
            self.mod.__dict__[self.name] = old


def amounts_for(bp):
    unit = Decimal(1).scaleb(-bp)
    if bp == 0:
        return [Decimal(3), unit, Decimal(1000)]
    return [Decimal("2.5"), unit * 3, Decimal(1000)]


class World:
    def __init__(self, ctx, bp=8, qp=2, fee="pctmin", liq="inf", lend="none", npairs=1, props=(), subscribe=True,
                 namounts=2, min_interest="0", margin_req="0.5", vols=None, init=None, sym_amount=False,
                 pct=None, min_fee=None, vol_limit="25", impact="10", closes=None, merge_minmax=True,
                 amount_hi=10 ** 10, lend_quote="USD", req_overrides=None):
        self.ctx, self.bp, self.qp, self.fee, self.liq, self.lend = ctx, bp, qp, fee, liq, lend
        self.props = set(props)
        self.sym_amount = sym_amount
        self.amount_hi = amount_hi
        if merge_minmax:
            patch_minmax(ctx)
        self.d = bs.backtesting_dispatcher()
        self.pairs = [Pair("BTC", "USD"), Pair("ETH", "USD")][:npairs]
        self.symbols = ["USD"] + [p.base_symbol for p in self.pairs]
        self.prec = {"USD": qp, "BTC": bp, "ETH": bp}
        self.init = {}
        for s in self.symbols:
            if init is not None and s in init:
                self.init[s] = init[s]
            else:
                self.init[s] = ctx.dec("init_" + s, self.prec[s], lo=0, hi=BAL_HI)
        self.pct = Decimal(pct) if pct is not None else Decimal("0.25")
        self.min_fee = Decimal(min_fee) if min_fee is not None else (Decimal("0.05") if fee == "pctmin" else ZERO)
        if fee == "none":
            fs = fees.NoFee()
        else:
            fs = fees.Percentage(self.pct, min_fee=self.min_fee)
        self.vol_limit, self.impact = Decimal(vol_limit), Decimal(impact)
        if liq == "inf":
            lf = liquidity.InfiniteLiquidity
        else:
            lf = lambda: liquidity.VolumeShareImpact(self.vol_limit, self.impact)   # noqa
        self.vols = vols
        self.closes = closes
        if lend == "none":
            ls = lending.NoLoans()
        else:
            self.cond = margin.MarginLoanConditions(
                interest_symbol="USD", interest_percentage=Decimal("7"), interest_period=DAY,
                min_interest=Decimal(min_interest),
                margin_requirement=margin_req if isinstance(margin_req, Decimal) else Decimal(margin_req))
            self.lend_quote = lend_quote
            self.req_by_symbol = {}
            if lend == "margin_base_only":
                # lending conditions exist for the base symbols only: borrowing the quote symbol fails with a plain
                # Error (not NotEnoughBalance) - a rejection coming from a different internal step
                ls = margin.MarginLoans("USD")
                for p_ in self.pairs:
                    ls.set_conditions(p_.base_symbol, self.cond)
            else:
                ls = margin.MarginLoans(lend_quote, default_conditions=self.cond)
                for sym_, req_ in (req_overrides or {}).items():
                    # per-symbol lending conditions override the default margin requirement
                    import dataclasses as _dc
                    ls.set_conditions(sym_, _dc.replace(self.cond, margin_requirement=Decimal(req_)))
                    self.req_by_symbol[sym_] = Decimal(req_)
        self.margin_req = margin_req if isinstance(margin_req, Decimal) else Decimal(margin_req)
        self.e = bex.Exchange(self.d, dict(self.init), liquidity_strategy_factory=lf, fee_strategy=fs,
                              default_pair_info=PairInfo(bp, qp), lending_strategy=ls)
        for s in self.symbols:
            self.e.set_symbol_precision(s, self.prec[s])
        self.order_events = []
        if subscribe:
            async def on_order_event(ev):
                pass
            self.e.subscribe_to_order_events(on_order_event)
            self._order_src = self.e._order_mgr._order_updates.obj
        else:
            self._order_src = None
        self.step = 0
        self.now = T0
        self.d._set_now(self.now)
        self.amounts = amounts_for(bp)[:namounts]
        # oracle state
        self.orders = {}        # id -> dict(kind, side, pair, amount, p1, p2, reservation(dict), bars_seen, closed_reason)
        self.order_ids = []
        self.loans = {}         # id -> dict(symbol, amount, created)
        self.loan_ids = []
        self.last_info = {}
        self.last_close = {}
        self.bars = []
        self.bar_fills = {}
        self.n_events_seen = 0
        self.last_event_when = None

    # ------------------------------------------------------------------ operations
    def feed_bar(self, name, pair_idx=0, volume=None, ohlc=None, advance=True):
        ctx = self.ctx
        pair = self.pairs[pair_idx]
        if ohlc is not None:
            o, h, l, c = [Decimal(x).quantize(Decimal(1).scaleb(-self.qp)) for x in ohlc]
        else:
            o, h, l = [ctx.dec("%s_%s" % (name, n), self.qp, lo=1, hi=PRICE_HI) for n in "ohl"]
        if ohlc is not None:
            pass
        elif self.closes is not None:
            # margin scenarios: the close converts balances into the lending quote symbol; a solver-chosen concrete
            # close keeps equity / used margin linear in the remaining symbolic quantities
            c = Decimal(ctx.pick(name + "_closec", self.closes)).quantize(Decimal(1).scaleb(-self.qp))
        else:
            c = ctx.dec(name + "_c", self.qp, lo=1, hi=PRICE_HI)
        if volume is not None:
            v = volume
        elif self.liq == "inf" and self.vols is None:
            v = Decimal(1000)
        elif self.vols is not None:
            v = Decimal(ctx.pick(name + "_volc", self.vols))
        else:
            v = ctx.dec(name + "_v", 8, lo=0, hi=VOL_HI)
        ctx.assume(l <= o, l <= c, o <= h, c <= h)          # valid bar (input validity is C19's subject)
        if advance:
            b = bar.Bar(self.now, pair, o, h, l, c, v)
            self.step += 1
            self.now = T0 + self.step * DAY
        else:
            # a second bar event of the same pair for the same instant (e.g. two bar sources of different periods)
            b = bar.Bar(self.now - 2 * DAY, pair, o, h, l, c, v)
        pre = {oid: self.info(oid) for oid in self.order_ids}
        self.d._last_dt = self.now                  # what BacktestingDispatcher._dispatch_events does
        run(self.e._on_bar_event(bar.BarEvent(self.now, b)))
        self.last_close[pair] = c
        self.bars.append((pair, b, self.now))
        return b, pre

    def place(self, name, kind=None, side=None, pair_idx=0, amount=None, auto_borrow=False, auto_repay=False,
              on_grid_prices=True, price=None):
        ctx = self.ctx
        kind = KINDS[ctx.choice(name + "_kind", 4)] if kind is None else kind
        side = [BUY, SELL][ctx.choice(name + "_side", 2)] if side is None else side
        pair = self.pairs[pair_idx]
        if amount is None:
            if self.sym_amount:
                amount = ctx.dec(name + "_amount", self.bp, lo=getattr(self, "amount_lo", 1), hi=self.amount_hi)
            else:
                amount = ctx.pick(name + "_amtc", self.amounts)
        p1 = p2 = None
        if price is not None:
            p1 = Decimal(price).quantize(Decimal(1).scaleb(-self.qp))
        elif kind != "market":
            p1 = ctx.dec(name + "_p1", self.qp, lo=1, hi=PRICE_HI)
        if kind == "stop_limit":
            p2 = ctx.dec(name + "_p2", self.qp, lo=1, hi=PRICE_HI)
        kw = dict(auto_borrow=auto_borrow, auto_repay=auto_repay)
        spec = dict(kind=kind, side=side, pair=pair, amount=amount, p1=p1, p2=p2, name=name, placed_at=self.now,
                    bars_seen=0, auto_borrow=auto_borrow, auto_repay=auto_repay)
        pre = self.snapshot()
        try:
            if kind == "market":
                oid = run(self.e.create_market_order(side, pair, amount, **kw)).id
            elif kind == "limit":
                oid = run(self.e.create_limit_order(side, pair, amount, p1, **kw)).id
            elif kind == "stop":
                oid = run(self.e.create_stop_order(side, pair, amount, p1, **kw)).id
            else:
                oid = run(self.e.create_stop_limit_order(side, pair, amount, p1, p2, **kw)).id
        except errors.Error as e:
            self.rejected(pre, "place %s %s" % (kind, side.name), spec=spec, error=e)
            return None
        spec["reservation"] = self.reservation(spec)
        spec["remaining"] = dict(spec["reservation"])
        self.orders[oid] = spec
        self.order_ids.append(oid)
        self.accepted(pre, spec, oid)
        return oid

    def cancel(self, oid):
        pre = self.snapshot()
        was_open = self.info(oid).is_open
        try:
            run(self.e.cancel_order(oid))
        except errors.Error as e:
            self.rejected(pre, "cancel", error=e, cancel_of=oid, was_open=was_open)
            return False
        self.orders[oid]["remaining"] = {}
        self.orders[oid]["cancel_requested"] = True
        self.ctx.cover("an open order was cancelled")
        if "C05" in self.props:
            self.ctx.prove(was_open, "C05 cancelling a closed order fails")
        return True

    def create_loan(self, name, symbol=None, amount=None, extra_decimals=0):
        ctx = self.ctx
        symbol = symbol or ctx.pick(name + "_sym", self.symbols)
        if amount is None:
            # (extra_decimals > 0: a loan amount finer than the symbol's precision)
            amount = ctx.dec(name + "_amt", self.prec[symbol] + extra_decimals, lo=1, hi=10 ** 10)
        pre = self.snapshot()
        try:
            info = run(self.e.create_loan(symbol, amount))
        except errors.Error as e:
            self.rejected(pre, "create_loan", error=e, loan=(symbol, amount))
            return None
        self.loans[info.id] = dict(symbol=symbol, amount=amount, created=self.now)
        self.loan_ids.append(info.id)
        return info.id

    def repay(self, lid):
        pre = self.snapshot()
        try:
            run(self.e.repay_loan(lid))
        except errors.Error as e:
            self.rejected(pre, "repay_loan", error=e, repay_of=lid)
            return False
        return True

    # ------------------------------------------------------------------ observation through the public API
    def info(self, oid):
        return run(self.e.get_order_info(oid))

    def balances(self):
        bal = run(self.e.get_balances())
        out = {}
        for s in self.symbols:
            out[s] = bal[s] if s in bal else bex.Balance(available=ZERO, hold=ZERO, borrowed=ZERO)
        for s in bal:
            if s not in out:
                raise HarnessError("unexpected symbol in balances: %s" % s)
        return out

    def snapshot(self):
        bal = self.balances()
        infos = {i.id: i for i in run(self.e.get_orders())}
        loans = {l.id: l for l in run(self.e.get_loans())}
        return dict(bal=bal, orders=infos, loans=loans,
                    open_orders=sorted(i for i, o in infos.items() if o.is_open),
                    open_loans=sorted(i for i, l in loans.items() if l.is_open))

    # ------------------------------------------------------------------ oracle pieces
    def fee_of(self, quote_total):
        """independent reading of the percentage scheme: pct of the traded quote, at least min, rounded up"""
        if self.fee == "none":
            return ZERO
        return round_up(smax(quote_total * self.pct / Decimal(100), self.min_fee), self.qp)

    def reservation(self, spec):
        """what an accepted order may spend (C06's reference model)"""
        pair, amount, side = spec["pair"], spec["amount"], spec["side"]
        if spec["kind"] == "market":
            p = self.last_close.get(pair)
        elif spec["kind"] == "stop":
            p = spec["p1"]
        elif spec["kind"] == "limit":
            p = spec["p1"]
        else:
            p = spec["p2"]
        res = {}
        if side == SELL:
            res[pair.base_symbol] = amount
            if p is not None:
                est = round_half_even(amount * p, self.qp)
                fee = self.fee_of(est) if self._nonzero(est) else ZERO
                res[pair.quote_symbol] = smax(ZERO, fee - est)
        else:
            if p is not None:
                est = round_half_even(amount * p, self.qp)
                fee = self.fee_of(est) if self._nonzero(est) else ZERO
                res[pair.quote_symbol] = est + fee
        return res

    def _nonzero(self, x):
        # the estimate is only priced when it did not round to zero (an estimate of 0 carries no fee)
        if isinstance(x, SymDec):
            return bool(x != 0)
        return x != 0

    def eq_info(self, a, b):
        return And(a.is_open == b.is_open, a.amount_filled == b.amount_filled,
                   a.amount_remaining == b.amount_remaining, a.quote_amount_filled == b.quote_amount_filled,
                   self.eq_map(a.fees, b.fees), sorted(a.loan_ids) == sorted(b.loan_ids))

    def eq_map(self, a, b):
        keys = set(a) | set(b)
        return And([a.get(k, ZERO) == b.get(k, ZERO) for k in sorted(keys)] or [True])

    def eq_snapshot(self, a, b):
        conds = []
        for s in self.symbols:
            x, y = a["bal"][s], b["bal"][s]
            conds += [x.available == y.available, x.hold == y.hold, x.borrowed == y.borrowed]
        conds.append(a["open_orders"] == b["open_orders"])
        conds.append(a["open_loans"] == b["open_loans"])
        # (closed records may appear: a rolled-back loan of a rejected auto-borrow request is listed as closed)
        for i in a["orders"]:
            if i in b["orders"]:
                conds.append(self.eq_info(a["orders"][i], b["orders"][i]))
        return And(conds)

    # ------------------------------------------------------------------ obligations at operation boundaries
    def rejected(self, pre, what, **kw):
        self.ctx.cover("a request was rejected: " + what.split(" ")[0])
        post = self.snapshot()
        if "C07" in self.props:
            self.ctx.prove(self.eq_snapshot(pre, post),
                           "C07 rejected %s leaves balances, holds, borrowed, open orders and open loans untouched"
                           % what.split(" ")[0], info=str(kw.get("error")))
        if "C06" in self.props and "spec" in kw and not kw["spec"]["auto_borrow"]:
            spec = kw["spec"]
            if self.valid_request(spec):
                res = self.reservation(spec)
                covered = And([pre["bal"][s].available >= amt for s, amt in res.items()] or [True])
                self.ctx.prove(Not(covered), "C06 a valid request is rejected only when available funds do not cover "
                                             "its reservation")

    def valid_request(self, spec):
        return True     # the driver only generates on-grid positive amounts and prices

    def accepted(self, pre, spec, oid):
        self.ctx.cover("an order was accepted")
        if "C06" in self.props and not spec["auto_borrow"]:
            res = spec["reservation"]
            covered = And([pre["bal"][s].available >= amt for s, amt in res.items()] or [True])
            self.ctx.prove(covered, "C06 a request is accepted only when available funds cover its reservation")
            post = self.balances()
            self.ctx.prove(And([post[s].hold - pre["bal"][s].hold == res.get(s, ZERO) for s in self.symbols]),
                           "C06 acceptance reserves exactly the order's reservation")

    # ------------------------------------------------------------------ the per-step oracle
    def check(self, tag, bar_pre=None, bar_obj=None):
        """obligations after a step.  bar_pre/bar_obj: set when the step was a bar (pre-bar order infos, the bar)."""
        ctx, P = self.ctx, self.props
        bal = self.balances()
        infos = run(self.e.get_orders())
        by_id = {i.id: i for i in infos}
        loans = run(self.e.get_loans())
        if sorted(by_id) != sorted(self.order_ids):
            ctx.prove(False, "C05 get_orders lists exactly the accepted orders")
        # --- per order deltas of this step
        deltas = {}
        for oid in self.order_ids:
            i, prev = by_id[oid], self.last_info.get(oid)
            st = self.orders[oid]
            sgn = 1 if st["side"] == BUY else -1
            pf = prev.amount_filled if prev else ZERO
            pq = prev.quote_amount_filled if prev else ZERO
            pfee = prev.fees.get("USD", ZERO) if prev else ZERO
            deltas[oid] = dict(base=i.amount_filled - pf, quote=i.quote_amount_filled - pq,
                               fee=i.fees.get("USD", ZERO) - pfee, sgn=sgn)
        # --- C01 ledger
        if "C01" in P:
            flow = {s: ZERO for s in self.symbols}
            for i in infos:
                st = self.orders[i.id]
                sgn = 1 if st["side"] == BUY else -1
                flow[st["pair"].base_symbol] = flow[st["pair"].base_symbol] + sgn * i.amount_filled
                flow[st["pair"].quote_symbol] = flow[st["pair"].quote_symbol] - sgn * i.quote_amount_filled
                for s, f in i.fees.items():
                    flow[s] = flow[s] - f
            for l in loans:
                for s, amt in l.paid_interest.items():
                    flow[s] = flow[s] - amt
            for s in self.symbols:
                ctx.prove(bal[s].total == self.init[s] + flow[s],
                          "C01 total(%s) == initial + fills - fees - interest paid [%s]" % (s, tag))
        # --- C02 solvency
        if "C02" in P:
            for s in self.symbols:
                b = bal[s]
                ctx.prove([b.available >= 0, b.hold >= 0, b.borrowed >= 0,
                           b.total == b.available + b.hold - b.borrowed],
                          "C02 no negative balance, total = available + hold - borrowed (%s) [%s]" % (s, tag))
                principal = ZERO
                for l in loans:
                    if l.is_open and l.borrowed_symbol == s:
                        principal = principal + l.borrowed_amount
                ctx.prove(b.borrowed == principal, "C02 borrowed(%s) == principal of open loans [%s]" % (s, tag))
        # --- C05 lifecycle
        if "C05" in P:
            for oid in self.order_ids:
                i, prev, st = by_id[oid], self.last_info.get(oid), self.orders[oid]
                ctx.prove([i.amount_filled >= 0, i.amount_filled <= i.amount,
                           i.amount_filled + i.amount_remaining == i.amount, i.amount == st["amount"]],
                          "C05 0 <= filled <= amount and filled + remaining == amount [%s]" % tag)
                ctx.prove(Implies(i.amount_filled == i.amount, not i.is_open),
                          "C05 a completely filled order is closed [%s]" % tag)
                if i.is_open:
                    ctx.prove(i.amount_filled < i.amount, "C05 an open order is not completely filled [%s]" % tag)
                if prev is not None:
                    ctx.prove(i.amount_filled >= prev.amount_filled, "C05 filled amount only grows [%s]" % tag)
                    if not prev.is_open:
                        ctx.prove(self.eq_info(i, prev), "C05 a closed order never changes again [%s]" % tag)
                    elif not i.is_open and bar_obj is None and not st.get("cancel_requested"):
                        ctx.prove(False, "C05 an order closes only by fill, cancellation or fill-or-kill [%s]" % tag)
                seen = st["bars_seen"] + (1 if (bar_obj is not None and st["pair"] == bar_obj.pair and
                                                bar_pre[oid].is_open) else 0)
                if st["kind"] in ("market", "stop") and seen >= 1:
                    ctx.prove(not i.is_open, "C05 market/stop orders are closed after the first bar of their pair "
                                             "[%s]" % tag)
                    ctx.prove(Or(i.amount_filled == 0, i.amount_filled == i.amount),
                              "C05 market/stop orders never fill partially [%s]" % tag)
            for pidx, pair in enumerate(self.pairs):
                want_open = sorted(o for o in self.order_ids if by_id[o].is_open and self.orders[o]["pair"] == pair)
                got = sorted(o.id for o in run(self.e.get_open_orders(pair)))
                ctx.prove(got == want_open, "C05 get_open_orders(pair) lists exactly the open orders [%s]" % tag)
                for flag in (True, False):
                    want = sorted(o for o in self.order_ids if by_id[o].is_open == flag and
                                  self.orders[o]["pair"] == pair)
                    got = sorted(o.id for o in run(self.e.get_orders(pair=pair, is_open=flag)))
                    ctx.prove(got == want, "C05 get_orders(pair, is_open) filter is exact [%s]" % tag)
            got = sorted(o.id for o in run(self.e.get_open_orders()))
            ctx.prove(got == sorted(o for o in self.order_ids if by_id[o].is_open),
                      "C05 get_open_orders() lists exactly the open orders [%s]" % tag)
            self.check_events(by_id, tag, bar_obj is not None)
        # --- C06 holds
        if "C06" in P:
            # the oracle's remaining reservation per open order
            for oid in self.order_ids:
                i, st, dl = by_id[oid], self.orders[oid], deltas[oid]
                if not i.is_open:
                    st["remaining"] = {}
                    continue
                if bar_obj is not None:
                    spent = {}
                    base, quote = st["pair"].base_symbol, st["pair"].quote_symbol
                    if st["side"] == BUY:
                        spent[quote] = dl["quote"] + dl["fee"]
                    else:
                        spent[base] = dl["base"]
                        # a sell is debited fees only when they exceed the proceeds of the fill
                        spent[quote] = smax(ZERO, dl["fee"] - dl["quote"])
                    rem = st["remaining"]
                    for s in list(rem):
                        rem[s] = smax(ZERO, rem[s] - spent.get(s, ZERO))
            for s in self.symbols:
                want = ZERO
                for oid in self.order_ids:
                    if by_id[oid].is_open:
                        want = want + self.orders[oid]["remaining"].get(s, ZERO)
                ctx.prove(bal[s].hold == want,
                          "C06 hold(%s) == sum of the remaining reservations of open orders [%s]" % (s, tag))
                ctx.prove(bal[s].hold <= bal[s].available + bal[s].hold,
                          "C06 hold never exceeds the balance (%s) [%s]" % (s, tag))
            if not any(i.is_open for i in infos):
                ctx.cover("no order open")
                ctx.prove(And([bal[s].hold == 0 for s in self.symbols]),
                          "C06 nothing is on hold when no order is open [%s]" % tag)
        # --- C08 liquidity and precision
        if "C08" in P:
            for oid in self.order_ids:
                i, st = by_id[oid], self.orders[oid]
                ctx.prove([on_grid(i.amount_filled, self.bp), on_grid(i.quote_amount_filled, self.qp)] +
                          [on_grid(f, self.prec[s]) for s, f in i.fees.items()],
                          "C08 filled base, quote and fees are multiples of the precision [%s]" % tag)
            for s in self.symbols:
                ctx.prove([on_grid(bal[s].available, self.prec[s]), on_grid(bal[s].hold, self.prec[s]),
                           on_grid(bal[s].borrowed, self.prec[s])],
                          "C08 available/hold/borrowed are multiples of the precision (%s) [%s]" % (s, tag))
            if bar_obj is not None and self.liq != "inf":
                pair = bar_obj.pair
                total = ZERO
                cap = bar_obj.volume * self.vol_limit / Decimal(100)
                for oid in self.order_ids:
                    if self.orders[oid]["pair"] == pair:
                        total = total + deltas[oid]["base"]
                ctx.prove(total <= cap, "C08 base filled in one bar <= volume share granted by the liquidity model "
                                        "[%s]" % tag)
                used = ZERO
                for oid in self.order_ids:       # in processing order (acceptance order)
                    st, dl = self.orders[oid], deltas[oid]
                    if st["pair"] != pair or not bar_pre[oid].is_open:
                        continue
                    if st["kind"] in ("market", "stop"):
                        need = bar_pre[oid].amount_remaining
                        ctx.prove(Implies(need > cap - used, dl["base"] == 0),
                                  "C08 market/stop orders needing more than the remaining liquidity are not filled "
                                  "[%s]" % tag)
                        if st["kind"] == "market" and st["side"] == SELL and self.fee == "none":
                            # a market sell whose base is on hold and that pays no fee is always funded: if it fits in
                            # what earlier FILLS left of the bar's liquidity it must be filled
                            ctx.cover("a funded fill-or-kill order competed for liquidity")
                            # (a fill whose quote amount rounds to zero is ignored by design: require a notional of at
                            # least one quote unit at the bar's low, below which a market sell never trades)
                            unit = Decimal(1).scaleb(-self.qp)
                            ctx.prove(Implies(And(need <= cap - used, need * bar_obj.low >= unit), dl["base"] == need),
                                      "C08 market/stop orders that fit in the remaining liquidity are filled, funds "
                                      "permitting [%s]" % tag)
                    used = used + dl["base"]
        # --- bookkeeping for the next step
        for oid in self.order_ids:
            self.last_info[oid] = by_id[oid]
        if bar_obj is not None:
            for oid in self.order_ids:
                if self.orders[oid]["pair"] == bar_obj.pair and bar_pre[oid].is_open:
                    self.orders[oid]["bars_seen"] += 1
        return bal, by_id, deltas

    def check_events(self, by_id, tag, was_bar):
        """C05: one event per acceptance / fill / closure, in time order, last equals the final state."""
        ctx = self.ctx
        if self._order_src is None:
            return
        new = []
        while True:
            ev = self._order_src.pop()
            if ev is None:
                break
            new.append(ev)
        changed = []
        for oid in self.order_ids:
            i, prev = by_id[oid], self.last_info.get(oid)
            if prev is None:
                changed.append((oid, True))
            else:
                ch = Not(self.eq_info(i, prev))
                changed.append((oid, ch))
        per_order = {}
        for ev in new:
            per_order.setdefault(ev.order.id, []).append(ev)
            if self.last_event_when is not None:
                ctx.prove(ev.when >= self.last_event_when, "C05 order events are emitted in time order [%s]" % tag)
            self.last_event_when = ev.when
            ctx.prove(ev.when == self.now, "C05 order event carries the time of the step that caused it [%s]" % tag)
        for oid, ch in changed:
            evs = per_order.get(oid, [])
            if ch is True:
                ctx.prove(len(evs) == 1, "C05 exactly one event per acceptance [%s]" % tag)
            else:
                ctx.prove(Iff(ch, len(evs) == 1) if len(evs) <= 1 else False,
                          "C05 exactly one event per fill/closure and none otherwise [%s]" % tag)
            if evs:
                ctx.prove(self.eq_info(evs[-1].order, by_id[oid]),
                          "C05 the last event of an order equals its state [%s]" % tag)
        for oid in per_order:
            if oid not in by_id:
                ctx.prove(False, "C05 event for an unknown order [%s]" % tag)

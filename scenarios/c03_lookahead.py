"""C03 No look-ahead; backtest results independent of dispatcher concurrency.

Whole stack: real Exchange + real BacktestingDispatcher on asyncio, 1-3 pairs fed by FifoQueueEventSource bar
sources.  Symbolic: max_concurrent, the bar event timestamps (shared or distinct across pairs is the solver's
choice), the registration order of sources/handlers (choice), the number of suspension points of the strategy
handlers (choice).  Prices are concrete: the subject is scheduling, not arithmetic.
"""
import asyncio
import datetime
from decimal import Decimal

import basana as bs
from basana.backtesting import errors, exchange as bex, liquidity
from basana.core import bar, event
from basana.core.event_sources import trading_signal
from basana.core.pair import Pair, PairInfo

from symx import And, Implies
from symx.run import Job
from .disp import run_dispatcher


def xrun(coro):
    """run an exchange coroutine to completion outside the dispatcher (on its own loop: nothing in this check
    assumes that an exchange call completes without yielding)"""
    loop = asyncio.new_event_loop()
    try:
        return loop.run_until_complete(coro)
    finally:
        loop.close()


T0 = datetime.datetime(2020, 1, 1, tzinfo=datetime.timezone.utc)
T_HI = T0 + datetime.timedelta(days=30)
PAIRS = [Pair("AAA", "USD"), Pair("BBB", "USD"), Pair("CCC", "USD")]
BUY, SELL = bs.OrderOperation.BUY, bs.OrderOperation.SELL

META = dict(
    module="scenarios.c03_lookahead", level="model_checking",
    bounds=dict(
        quick="1-3 pairs x 2 bars, bar event times symbolic (microseconds, strictly increasing per pair, ties across "
              "pairs allowed), max_concurrent symbolic in 1..4, 3 registration orders of bar sources / bar handlers / "
              "order-event handler / trading-signal source, strategy handlers with 0..2 suspension points (no-look-"
              "ahead clause) and with none (determinism clause, compared against max_concurrent = 50 on the same "
              "path: 2-safety by self-composition); fixed cross-pair order script (market, limit, stop orders, a cancel, "
              "a follow-up order from an order event, an order from a trading signal); handlers that query the exchange "
              "first with funds for one order; two order events of one instant on a source subscribed before the "
              "bars, their handler competing with the bar handler for funds; repeated runs that differ in the uuid4 "
              "stream (competing orders with a symbolic traversal counter; two equal loans and an auto-repay order)",
        thorough="adds 2 pairs x 3 bars, 3 pairs x 2 bars with max_concurrent 1..6, the tight-funds job with 3 pairs, "
                 "repeated runs with 4 competing orders"),
    stubs=["logging disabled", "uuid.uuid4 deterministic", "concrete OHLCV (scheduling is the subject)"],
    assumptions=["per-pair bar times strictly increasing", "handlers of the determinism clause do not suspend (premise)"],
    outside=["'for every hash seed': PYTHONHASHSEED is a process start-up parameter, not a solver variable; the "
             "workers run with PYTHONHASHSEED=VERIF_SEED so that successive runs sample it, no verdict is claimed",
             "more pairs / bars than stated"],
    required_covers=["an order was filled", "run completed", "the handler pool was saturated",
                     "an auto-repay order repaid one of two equal loans",
                     "two order events of one instant were handled"],
)


def build(ctx, times, mc, npairs, nbars, reg_order, nsusp, log, merged=False, query=False, usd=100000):
    """builds the stack and the strategy; returns (dispatcher, exchange, result dict)"""
    d = bs.backtesting_dispatcher(max_concurrent=mc)
    e = bex.Exchange(d, {"USD": Decimal(usd), "AAA": Decimal(100), "BBB": Decimal(100), "CCC": Decimal(100)},
                     liquidity_strategy_factory=liquidity.InfiniteLiquidity, default_pair_info=PairInfo(0, 2))
    pairs = PAIRS[:npairs]
    srcs = {}
    for p, pair in enumerate(pairs):
        evs = []
        for k in range(nbars):
            o = Decimal(10 + k + p)
            b = bar.Bar(times[p][k] - datetime.timedelta(days=1), pair, o, o + 3, o - 2, o + 1, Decimal(1000))
            evs.append(bar.BarEvent(times[p][k], b))
        srcs[pair] = event.FifoQueueEventSource(events=evs)
    if merged:
        # one bar source carrying the bars of all pairs (e.g. a single CSV / feed), in time order
        evs = []
        for k in range(nbars):
            for pair in pairs:
                evs.append(srcs[pair]._queue[k])
        one = event.FifoQueueEventSource(events=evs)
        srcs = {pair: one for pair in pairs}
    res = dict(submitted={}, fills=[], names={}, seen_bars=[], errors=[])
    signals = trading_signal.TradingSignalSource(d)
    state = dict(n=0, followup=False)

    async def submit(name, coro_fn):
        now = d.now()
        try:
            created = await coro_fn()
        except errors.Error as ex:
            res["errors"].append((name, str(ex)))
            return None
        res["submitted"][created.id] = now
        res["names"][created.id] = name
        return created.id

    async def look_around(pair):
        # read-only queries a strategy makes before deciding (none of them is a suspension point of the strategy);
        # only the first pair's handler looks around, so a query that yields lets the other handler overtake it
        if query:
            await e.get_balances()
            await e.get_balance("USD")
            await e.get_bid_ask(pair)
            await e.get_pair_info(pair)
            await e.get_open_orders()

    async def on_bar_first(ev):
        for _ in range(nsusp):
            await asyncio.sleep(0)
        await look_around(pairs[0])
        k = sum(1 for x in res["seen_bars"] if x[0] == 0)
        res["seen_bars"].append((0, ev.when))
        last = pairs[-1]
        await submit("mkt_buy_last_%d" % k, lambda: e.create_market_order(BUY, last, Decimal(1)))
        if k == 0:
            await submit("lim_sell_mid", lambda: e.create_limit_order(SELL, pairs[len(pairs) // 2], Decimal(2),
                                                                      Decimal("11.50")))
            signals.push(trading_signal.TradingSignal(ev.when, bs.Position.LONG, last))

    async def on_bar_last(ev):
        for _ in range(nsusp):
            await asyncio.sleep(0)
        k = sum(1 for x in res["seen_bars"] if x[0] == 1)
        res["seen_bars"].append((1, ev.when))
        await submit("stop_buy_first_%d" % k, lambda: e.create_stop_order(BUY, pairs[0], Decimal(1), Decimal("12.00")))
        opn = await e.get_open_orders(pairs[len(pairs) // 2])
        if opn and k == 1:
            try:
                await e.cancel_order(opn[0].id)
            except errors.Error:
                pass

    async def on_signal(sig):
        await submit("signal_buy", lambda: e.create_market_order(BUY, sig.pair, Decimal(3)))

    async def on_order_event(oev):
        info = oev.order
        prev = state.get(("filled", info.id), Decimal(0))
        if info.amount_filled > prev:
            res["fills"].append((info.id, oev.when, info.amount_filled - prev, info.quote_amount_filled))
            state[("filled", info.id)] = info.amount_filled
            if not state["followup"]:
                state["followup"] = True
                await submit("followup_sell_first", lambda: e.create_market_order(SELL, pairs[0], Decimal(1)))

    def reg_sources():
        done = []
        for pair in pairs:
            if not any(srcs[pair] is x for x in done):
                e.add_bar_source(srcs[pair])
                done.append(srcs[pair])

    def reg_handlers():
        e.subscribe_to_bar_events(pairs[0], on_bar_first)
        if len(pairs) > 1:
            e.subscribe_to_bar_events(pairs[-1], on_bar_last)
        else:
            e.subscribe_to_bar_events(pairs[0], on_bar_last)

    def reg_rest():
        e.subscribe_to_order_events(on_order_event)
        signals.subscribe_to_trading_signals(on_signal)

    if reg_order == 0:
        reg_sources(), reg_handlers(), reg_rest()
    elif reg_order == 1:
        # interleaved: a derived (forwarded) bar source is registered before a later primary source
        for i, pair in enumerate(pairs):
            if i == 0 or not merged:
                e.add_bar_source(srcs[pair])
            if i == 0:
                e.subscribe_to_bar_events(pairs[0], on_bar_first)
        e.subscribe_to_bar_events(pairs[-1], on_bar_last)
        reg_rest()
    else:
        reg_rest(), reg_handlers(), reg_sources()
    # observe pool saturation through the public push() of the dispatcher's pool
    pool = d._handlers_task_pool
    orig_push = pool.push

    async def push(coro):
        n = len(pool._tasks)
        res["max_in_pool"] = max(res.get("max_in_pool", 0), n + 1)
        if n >= pool._max_size:          # same condition push() evaluates next: no additional fork
            res["saturated"] = True
        return await orig_push(coro)
    pool.push = push
    return d, e, res


def outcome(e, res):
    bal = {}
    b = xrun(e.get_balances())
    orders = xrun(e.get_orders())
    for s, v in b.items():
        bal[s] = (v.available, v.hold, v.borrowed)
    fills = sorted((res["names"][oid], amt, q) for oid, when, amt, q in res["fills"])
    final = sorted((res["names"][o.id], o.is_open, o.amount_filled, o.quote_amount_filled) for o in orders)
    return bal, fills, final


def scenario(ctx, npairs=3, nbars=2, max_mc=4, clause="lookahead", merged=False, query=False, usd=100000):
    mc = ctx.int("max_concurrent", 1, max_mc)
    times = []
    for p in range(npairs):
        row, prev = [], None
        for k in range(nbars):
            t = ctx.dt("t_%d_%d" % (p, k), T0 + datetime.timedelta(days=1), T_HI)
            if prev is not None:
                ctx.assume(t > prev)
            prev = t
            row.append(t)
        times.append(row)
    if merged:
        # the merged source is in non-decreasing time order: bar k of pair p <= bar k of pair p+1 <= bar k+1 of pair 0
        for k in range(nbars):
            for p in range(npairs - 1):
                ctx.assume(times[p][k] <= times[p + 1][k])
            if k + 1 < nbars:
                ctx.assume(times[npairs - 1][k] <= times[0][k + 1])
    reg_order = ctx.choice("registration_order", 3)
    nsusp = ctx.choice("suspension_points", 3) if clause == "lookahead" else 0
    d, e, res = build(ctx, times, mc, npairs, nbars, reg_order, nsusp, None, merged, query, usd)
    run_dispatcher(d)
    # ---- no look-ahead: every fill is later than the submission of its order
    for oid, when, amt, q in res["fills"]:
        ctx.cover("an order was filled")
        ctx.prove(when > res["submitted"][oid],
                  "C03 every fill carries a later timestamp than the simulated time its order was submitted at",
                  info=res["names"][oid])
    if res.get("max_in_pool", 0) >= 2:
        ctx.cover("several events were in flight")
    ctx.cover("run completed")
    if clause == "determinism":
        # 2-safety by self-composition: same inputs, max_concurrent = 50 (the pool never fills)
        d2, e2, res2 = build(ctx, times, 50, npairs, nbars, reg_order, 0, None, merged, query, usd)
        run_dispatcher(d2)
        a, b = outcome(e, res), outcome(e2, res2)
        ctx.prove(a[1] == b[1], "C03 the fill history does not depend on max_concurrent", info=(a[1], b[1]))
        ctx.prove(a[2] == b[2], "C03 final order states do not depend on max_concurrent", info=(a[2], b[2]))
        ctx.prove(a[0] == b[0], "C03 final balances do not depend on max_concurrent", info=(a[0], b[0]))
        # repeated run with the same max_concurrent
        d3, e3, res3 = build(ctx, times, mc, npairs, nbars, reg_order, 0, None, merged, query, usd)
        run_dispatcher(d3)
        c = outcome(e3, res3)
        ctx.prove(a == c, "C03 repeated runs give identical fills and balances")
    if res.get("saturated"):
        ctx.cover("the handler pool was saturated")


def _id_stream(ctx, stream):
    """uuid.uuid4 for one run.  Stream 0 yields ids in ascending order, 1 in descending order, 2 and 3 hash-scattered:
    two runs of the same backtest differ in nothing but these values."""
    import hashlib
    import uuid
    n = [0]

    def uuid4():
        n[0] += 1
        if stream == 0:
            return uuid.UUID(int=(0xA << 124) | n[0])
        if stream == 1:
            return uuid.UUID(int=(0xA << 124) | (2 ** 64 - n[0]))
        return uuid.UUID(bytes=hashlib.sha256(b"%d:%d" % (stream, n[0])).digest()[:16])
    ctx.patch(uuid, "uuid4", uuid4, both_modes=True)


def order_events_first(ctx, max_mc=4):
    """Determinism when one source delivers several events for one instant: two market sells are filled by the same bar
    (two order events of that instant, on a source subscribed BEFORE the bar events); the order-event handler and the
    bar handler then compete for funds that cover only two of their three buys.  Compared across max_concurrent."""
    mc = ctx.int("max_concurrent", 1, max_mc)
    t1 = ctx.dt("t_bar1", T0 + datetime.timedelta(days=1), T_HI)
    t2 = ctx.dt("t_bar2", T0 + datetime.timedelta(days=1), T_HI)
    ctx.assume(t2 > t1)
    pair = PAIRS[0]

    def one_run(mcv):
        d = bs.backtesting_dispatcher(max_concurrent=mcv)
        e = bex.Exchange(d, {"USD": Decimal(20), "AAA": Decimal(100)},
                         liquidity_strategy_factory=liquidity.InfiniteLiquidity, default_pair_info=PairInfo(0, 2))
        evs = []
        for k, t in enumerate((t1, t2)):
            o = Decimal(10 + k)
            evs.append(bar.BarEvent(t, bar.Bar(t - datetime.timedelta(days=1), pair, o, o + 3, o - 2, o + 1,
                                               Decimal(1000))))
        src = event.FifoQueueEventSource(events=evs)
        log = []
        nbars = [0]

        async def buy(name, price):
            try:
                await e.create_limit_order(BUY, pair, Decimal(1), Decimal(price))
                log.append((name, "accepted"))
            except errors.Error:
                log.append((name, "rejected"))

        async def on_order_event(oev):
            if oev.order.operation == SELL and not oev.order.is_open and oev.order.amount_filled > 0:
                await buy("from_fill", "16.00")

        async def on_bar(ev):
            nbars[0] += 1
            if nbars[0] == 1:
                for _ in range(2):
                    await e.create_market_order(SELL, pair, Decimal(1))
            else:
                await buy("from_bar", "15.00")
        e.subscribe_to_order_events(on_order_event)        # before the bar events (as samples/backtest_pairs_trading.py)
        e.add_bar_source(src)
        e.subscribe_to_bar_events(pair, on_bar)
        run_dispatcher(d)
        bal = {s_: (v.available, v.hold, v.borrowed) for s_, v in xrun(e.get_balances()).items()}
        return log, bal
    a = one_run(mc)
    b = one_run(50)
    if sum(1 for x in a[0] if x[0] == "from_fill") == 2:
        ctx.cover("two order events of one instant were handled")
    ctx.prove(sorted(a[0]) == sorted(b[0]), "C03 the accepted / rejected requests do not depend on max_concurrent",
              info=(a[0], b[0]))
    ctx.prove(a[1] == b[1], "C03 final balances do not depend on max_concurrent", info=(a[1], b[1]))
    ctx.cover("run completed")


def repeated_runs_loans(ctx):
    """Determinism across repeated runs where the random ids are LOAN ids: two equally sized loans taken at different
    times (so their interest differs), the borrowed coins sold, one coin bought back by an auto-repay order: which loan
    is repaid must not depend on the ids."""
    from basana.backtesting.lending import margin
    stream_b = 1 + ctx.choice("id_stream_of_second_run", 3)
    pair = PAIRS[0]

    def one_run(stream):
        _id_stream(ctx, stream)
        d = bs.backtesting_dispatcher()
        cond = margin.MarginLoanConditions(interest_symbol="USD", interest_percentage=Decimal("7"),
                                           interest_period=datetime.timedelta(days=1), min_interest=Decimal(0),
                                           margin_requirement=Decimal("0.1"))
        e = bex.Exchange(d, {"USD": Decimal(100000)}, liquidity_strategy_factory=liquidity.InfiniteLiquidity,
                         default_pair_info=PairInfo(0, 2),
                         lending_strategy=margin.MarginLoans("USD", default_conditions=cond))
        e.set_symbol_precision("USD", 2)
        e.set_symbol_precision("AAA", 0)
        now = [T0]

        def feed(price):
            now[0] = now[0] + datetime.timedelta(days=1)
            d._last_dt = now[0]
            p_ = Decimal(price)
            xrun(e._on_bar_event(bar.BarEvent(now[0], bar.Bar(now[0] - datetime.timedelta(days=1), pair, p_, p_, p_, p_,
                                                              Decimal(1000)))))
        d._last_dt = T0
        feed(100)
        l1 = xrun(e.create_loan("AAA", Decimal(1)))
        feed(100)
        l2 = xrun(e.create_loan("AAA", Decimal(1)))
        xrun(e.create_market_order(SELL, pair, Decimal(2)))
        feed(100)
        xrun(e.create_market_order(BUY, pair, Decimal(1), auto_repay=True))
        feed(100)
        loans = [xrun(e.get_loan(l.id)) for l in (l1, l2)]
        out = [(i, l.is_open, l.paid_interest.get("USD", Decimal(0))) for i, l in enumerate(loans)]
        bal = {s: (v.available, v.hold, v.borrowed) for s, v in xrun(e.get_balances()).items()}
        return out, bal
    a = one_run(0)
    b = one_run(stream_b)
    if sum(1 for x in a[0] if not x[1]) == 1:
        ctx.cover("an auto-repay order repaid one of two equal loans")
    ctx.prove(a[0] == b[0], "C03 repeated runs repay the same loans (runs differ in the random ids only)",
              info=(a[0], b[0]))
    ctx.prove(a[1] == b[1], "C03 repeated runs give identical final balances (runs differ in the random ids only)",
              info=(a[1], b[1]))
    ctx.cover("run completed")


def repeated_runs(ctx, norders=3):
    """Determinism across repeated runs, exchange level.  What differs between two runs of one backtest is the outcome
    of uuid.uuid4() (the order ids): run A and run B get different id streams (B's is a solver choice).  The open-order
    container's traversal counter is symbolic, so 'however long the backtest ran before' is covered (periodic
    re-indexing included).  Orders compete for one bar's limited liquidity, so the processing order shows in the fills."""
    stream_b = 1 + ctx.choice("id_stream_of_second_run", 3)
    counter0 = ctx.int("reindex_counter", 0, 10 ** 6)
    ntrav = 1 + ctx.choice("traversals_before_the_bar", 2)
    pair = PAIRS[0]

    def one_run(stream):
        _id_stream(ctx, stream)
        d = bs.backtesting_dispatcher()
        e = bex.Exchange(d, {"USD": Decimal(100000), "AAA": Decimal(100)},
                         liquidity_strategy_factory=liquidity.VolumeShareImpact, default_pair_info=PairInfo(0, 2))
        now = [T0]

        def feed(o, h, l, c, v):
            now[0] = now[0] + datetime.timedelta(days=1)
            d._last_dt = now[0]
            b = bar.Bar(now[0] - datetime.timedelta(days=1), pair, Decimal(o), Decimal(h), Decimal(l), Decimal(c),
                        Decimal(v))
            xrun(e._on_bar_event(bar.BarEvent(now[0], b)))
        d._last_dt = T0
        feed(100, 101, 99, 100, 1000)
        oids = []
        for i in range(norders):
            oids.append(xrun(e.create_limit_order(BUY, pair, Decimal(10 + i), Decimal(50))).id)
        e._order_mgr._orders._reindex_counter = counter0
        for k in range(ntrav):
            if k % 2 == 0:
                feed(100, 101, 99, 100, 1000)            # no order crosses
            else:
                xrun(e.get_open_orders())
        feed(100, 101, 40, 45, 48)                        # crosses every limit; 25 % of 48 = 12 units of liquidity
        out = []
        for i, oid in enumerate(oids):
            info = xrun(e.get_order_info(oid))
            out.append((i, info.is_open, info.amount_filled, info.quote_amount_filled))
        bal = {s: (v.available, v.hold, v.borrowed) for s, v in xrun(e.get_balances()).items()}
        return out, bal
    a = one_run(0)
    b = one_run(stream_b)
    if any(f[2] > 0 for f in a[0]):
        ctx.cover("an order was filled")
    ctx.prove(a[0] == b[0], "C03 repeated runs give identical fills (runs differ in the random order ids only)",
              info=(a[0], b[0]))
    ctx.prove(a[1] == b[1], "C03 repeated runs give identical final balances (runs differ in the random order ids only)",
              info=(a[1], b[1]))
    ctx.cover("run completed")


def jobs(tier):
    big = dict(split=200, max_paths=2000000, validate_every=300, sample_every=600)
    js = []
    for npairs in (1, 2, 3):
        js.append(Job("look-ahead %d pairs x 2 bars" % npairs, "scenario",
                      dict(npairs=npairs, nbars=2, max_mc=4, clause="lookahead"), **big))
        js.append(Job("determinism %d pairs x 2 bars" % npairs, "scenario",
                      dict(npairs=npairs, nbars=2, max_mc=4, clause="determinism"), **big))
    for npairs in (2, 3):
        js.append(Job("look-ahead %d pairs x 2 bars, one merged bar source" % npairs, "scenario",
                      dict(npairs=npairs, nbars=2, max_mc=3, clause="lookahead", merged=True), **big))
    # handlers that query the account before ordering, funds that cover only one of two orders of an instant
    for npairs in ((2,) if tier == "quick" else (2, 3)):
        js.append(Job("determinism %d pairs x 2 bars, handlers query the exchange first, tight funds" % npairs,
                      "scenario", dict(npairs=npairs, nbars=2, max_mc=4, clause="determinism", query=True, usd=20),
                      **big))
    js.append(Job("determinism, two order events of one instant on a source subscribed before the bars",
                  "order_events_first", dict(max_mc=4), validate_every=5, sample_every=10))
    js.append(Job("repeated runs, 3 competing orders, any traversal count", "repeated_runs", dict(norders=3),
                  validate_every=5, sample_every=10))
    js.append(Job("repeated runs, two equal loans and one auto-repay order", "repeated_runs_loans", validate_every=1,
                  sample_every=1))
    if tier == "thorough":
        js.append(Job("repeated runs, 4 competing orders, any traversal count", "repeated_runs", dict(norders=4),
                      validate_every=5, sample_every=10))
        for clause in ("lookahead", "determinism"):
            js.append(Job("%s 2 pairs x 3 bars" % ("look-ahead" if clause == "lookahead" else clause), "scenario",
                          dict(npairs=2, nbars=3, max_mc=4, clause=clause), **dict(big, split=600)))
            js.append(Job("%s 3 pairs x 2 bars, max_concurrent up to 6" %
                          ("look-ahead" if clause == "lookahead" else clause), "scenario",
                          dict(npairs=3, nbars=2, max_mc=6, clause=clause), **dict(big, split=600)))
    return js

"""C01 Ledger conservation: totals change only by fills, fees and interest."""
from . import hist
from .hist import history  # noqa: F401  (resolved by the runner)

PROPS = ["C01"]
META = dict(
    module="scenarios.c01_ledger", level="model_checking",
    bounds=dict(quick=hist.BOUNDS_QUICK + "; loans plans with loan amounts carrying 3 decimals more than the "
                "symbol's precision; partial fills against off-grid liquidity (volumes 10, 127.83333333 at base "
                "precision 0)", thorough=hist.BOUNDS_THOROUGH),
    stubs=hist.BASE_STUBS, assumptions=hist.BASE_ASSUMPTIONS,
    outside=hist.BASE_OUTSIDE,
    required_covers=["end of history", "an order was accepted", "a request was rejected: place"],
)


def plans(tier):
    return hist.standard_plans(tier)


def jobs(tier):
    return hist.jobs_for(PROPS, plans(tier)) + extra_jobs(tier)


def extra_jobs(tier):
    # loan amounts finer than the symbol's precision (creating / repaying them must not change any total)
    ps = [dict(plan="loans", depth=2, bp=8, qp=2, lend="margin", namounts=1, closes=hist.CLOSES, kinds=["limit"],
               auto_borrow=False, auto_repay=ar, loan_symbol=ls, loan_extra_decimals=3)
          for ar in (False, True) for ls in ("USD", "BTC")]
    # partial fills against liquidity that is not a multiple of the base precision (25 % of 127.83333333 at precision 0)
    ps.append(dict(plan="single", depth=2, bp=0, qp=2, liq="vsi", vols=["10", "127.83333333"], namounts=3,
                   kinds=["limit", "stop_limit"]))
    return hist.jobs_for(PROPS, ps)

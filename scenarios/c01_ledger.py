"""C01 Ledger conservation: totals change only by fills, fees and interest."""
from . import hist
from .hist import history  # noqa: F401  (resolved by the runner)

PROPS = ["C01"]
META = dict(
    module="scenarios.c01_ledger", level="model_checking",
    bounds=dict(quick=hist.BOUNDS_QUICK, thorough=hist.BOUNDS_THOROUGH),
    stubs=hist.BASE_STUBS, assumptions=hist.BASE_ASSUMPTIONS,
    outside=hist.BASE_OUTSIDE,
    required_covers=["end of history", "an order was accepted", "a request was rejected: place"],
)


def plans(tier):
    return hist.standard_plans(tier)


def jobs(tier):
    return hist.jobs_for(PROPS, plans(tier))

"""Job runner: shards scenario explorations over worker processes, aggregates results, applies the
known-findings file, writes evidence and replay files, and sets the exit code.

exit 0  every obligation discharged on every explored path (KNOWN-FINDING lines possible)
exit 1  reproduced violation that known_findings.json does not list   (VIOLATION line printed)
exit 3  harness problem: undecided obligation, unreachable cover point, non reproducing counterexample,
        concolic mismatch, incomplete exploration, crash of the harness (never together with a VIOLATION line)
"""
from __future__ import annotations

import importlib
import json
import multiprocessing as mp
import os
import sys
import time
import traceback

from . import core

ROOT = os.path.dirname(os.path.dirname(os.path.abspath(__file__)))
REPO = os.environ.get("VERIF_REPO", "/repo")
_TOOL = 3
_seen_code = set()


class Job:
    def __init__(self, name, fn, kwargs=None, max_paths=20000, validate_every=25, sample_every=50, split=0,
                 prove_timeout=None):
        self.name, self.fn, self.kwargs = name, fn, kwargs or {}
        self.max_paths, self.validate_every, self.sample_every, self.split = max_paths, validate_every, \
            sample_every, split
        self.prove_timeout = prove_timeout

    def key(self):
        return dict(name=self.name, fn=self.fn, kwargs=_jsonable_kwargs(self.kwargs))


def _jsonable_kwargs(kw):
    return {k: (v if isinstance(v, (int, str, bool, float, type(None), list, dict)) else repr(v))
            for k, v in kw.items()}


def _resolve(modname, fn):
    mod = importlib.import_module(modname)
    return getattr(mod, fn)


def _monitor_start():
    mon = sys.monitoring
    try:
        mon.use_tool_id(_TOOL, "symx")
    except ValueError:
        return

    def on_start(code, off):
        if code.co_filename.startswith(REPO + "/basana"):
            _seen_code.add("%s:%s" % (code.co_filename[len(REPO) + 1:], code.co_qualname))
        return mon.DISABLE
    mon.register_callback(_TOOL, mon.events.PY_START, on_start)
    mon.set_events(_TOOL, mon.events.PY_START)


def _work(arg):
    modname, job, prefixes, phase = arg
    import logging
    import warnings
    logging.disable(logging.CRITICAL)
    warnings.simplefilter("ignore")
    t0 = time.perf_counter()
    try:
        _monitor_start()
        fn = _resolve(modname, job["fn"])
        if job.get("prove_timeout"):
            core.PROVE_TIMEOUT_MS = job["prove_timeout"]
        res = core.explore(fn, kwargs=job["kwargs"], prefixes=prefixes, max_paths=job["max_paths"],
                           frontier=job["split"] if phase == "expand" else None,
                           sample_every=job["sample_every"], validate_every=job["validate_every"])
        res["functions"] = sorted(_seen_code)
    except BaseException as e:      # noqa
        res = dict(fatal="%r\n%s" % (e, traceback.format_exc(limit=20)))
    res["job"] = job["name"]
    res["phase"] = phase
    res["elapsed"] = time.perf_counter() - t0
    return res


def _chunks(lst, n):
    n = max(1, n)
    k, m = divmod(len(lst), n)
    out, i = [], 0
    for j in range(n):
        sz = k + (1 if j < m else 0)
        if sz:
            out.append(lst[i:i + sz])
        i += sz
    return out


def load_known():
    p = os.path.join(ROOT, "known_findings.json")
    if not os.path.exists(p):
        return []
    return json.load(open(p))["findings"]


def _matches(finding, pid, viol):
    if finding.get("status") != "open" or finding["property"] != pid:
        return False
    m = finding.get("match", {})
    if "label" in m and m["label"] != viol["label"]:
        return False
    if "label_prefix" in m and not viol["label"].startswith(m["label_prefix"]):
        return False
    if "job_prefix" in m and not viol["job"].startswith(m["job_prefix"]):
        return False
    if "where" in m:
        env = {k: core.unjson(v) for k, v in viol["assign"].items()}
        env.update(viol.get("kwargs", {}))
        try:
            if not eval(m["where"], {"__builtins__": {}}, env):
                return False
        except Exception:
            return False
    return True


def run_property(pid, modname, tier, seed=0, procs=None):
    t_start = time.time()
    mod = importlib.import_module(modname)
    jobs = mod.jobs(tier)
    only = os.environ.get("SYMX_ONLY")
    if only:
        jobs = [j for j in jobs if only in j.name]
    meta = mod.META
    procs = procs or min(16, os.cpu_count() or 4)
    ctx = mp.get_context("fork")
    jd = {j.name: dict(name=j.name, fn=j.fn, kwargs=j.kwargs, max_paths=j.max_paths,
                       validate_every=j.validate_every, sample_every=j.sample_every, split=j.split,
                       prove_timeout=j.prove_timeout) for j in jobs}
    results = []
    with ctx.Pool(procs) as pool:
        # phase 1: jobs that want sharding are expanded breadth first to a frontier of prefixes
        first = [(modname, jd[j.name], None, "expand" if j.split else "full") for j in jobs]
        second = []
        # Fail fast: once a violation has been confirmed (replayed on the real code) and some more work has been given
        # the chance to finish, the remaining exploration is abandoned - a reproduced counterexample is decisive, and a
        # change that breaks a property often also makes the remaining queries much slower.  SYMX_NO_FAILFAST=1 disables.
        failfast = not os.environ.get("SYMX_NO_FAILFAST")
        t_first_violation = [None]

        def _stop_now(res):
            if res.get("confirmed") and t_first_violation[0] is None:
                t_first_violation[0] = time.time()
            return failfast and t_first_violation[0] is not None and time.time() - t_first_violation[0] > 60
        stopped = False
        for res in pool.imap_unordered(_work, first):
            results.append(res)
            _progress(res)
            if res.get("phase") == "expand" and res.get("pending"):
                j = jd[res["job"]]
                for ch in _chunks(res["pending"], max(procs * 2, len(res["pending"]) // 2)):
                    second.append((modname, j, ch, "shard"))
                res["pending"] = []
            if _stop_now(res):
                stopped = True
                break
        if not stopped:
            for res in pool.imap_unordered(_work, second):
                results.append(res)
                _progress(res)
                if _stop_now(res):
                    stopped = True
                    break
        if stopped:
            pool.terminate()
            print("stopping early: a violation was confirmed, the remaining exploration is abandoned", file=sys.stderr)
    return finish(pid, tier, seed, meta, jd, results, t_start, abandoned=stopped)


def _progress(res):
    if not os.environ.get("SYMX_JOBLOG"):
        return
    st = res.get("stats", {})
    print("job done: %-70s %s paths=%s solver=%.0fs wall=%.0fs pending=%d %s" % (
        res["job"][:70], res.get("phase"), st.get("paths"), st.get("solver_s", 0), res.get("elapsed", 0),
        len(res.get("pending", [])), "FATAL" if "fatal" in res else ""), file=sys.stderr, flush=True)


def finish(pid, tier, seed, meta, jd, results, t_start, abandoned=False):
    agg = core.Stats()
    covers, labels, dlabels = {}, {}, {}
    functions = set()
    samples, notes, problems = [], [], []
    violations = []
    validated = 0
    for r in results:
        if "fatal" in r:
            problems.append("job %s crashed in the harness: %s" % (r["job"], r["fatal"][:1500]))
            continue
        agg.merge({k: v for k, v in r["stats"].items() if k != "wall_s"})
        for k, v in r["covers"].items():
            covers[k] = covers.get(k, 0) + v
        for k, v in r["labels"].items():
            labels[k] = labels.get(k, 0) + v
        for k, v in r["discharged_labels"].items():
            dlabels[k] = dlabels.get(k, 0) + v
        functions.update(r.get("functions", []))
        for s in r["samples"]:
            if len(samples) < 6:
                samples.append(dict(job=r["job"], **s))
        for n in r["notes"]:
            if n not in notes:
                notes.append(n)
        validated += r["validated"]
        for c in r["confirmed"]:
            violations.append(dict(job=r["job"], kwargs=jd[r["job"]]["kwargs"], fn=jd[r["job"]]["fn"], **c))
        if r["n_unreproduced"]:
            u = r["unreproduced"][0]
            problems.append("job %s: %d counterexample(s) did not reproduce concretely, e.g. %s %s" %
                            (r["job"], r["n_unreproduced"], u["label"], json.dumps(u["assign"])[:400]))
        if r["n_undecided"]:
            problems.append("job %s: %d undecided obligation(s), e.g. %s" %
                            (r["job"], r["n_undecided"], r["undecided"][0]["label"]))
        if r["n_mismatches"]:
            problems.append("job %s: concolic cross-check mismatch: %s" % (r["job"], r["mismatches"][0]))
        if r["incomplete"]:
            problems.append("job %s: exploration incomplete (path budget %d)" % (r["job"], jd[r["job"]]["max_paths"]))
        if r["n_crashes"]:
            c = r["crashes"][0]
            # an unexpected exception out of the code under test: reported as a violation of the property's
            # "never an internal error" reading only if the scenario asked for it; otherwise harness problem
            problems.append("job %s: unexpected exception on %d path(s): %s (inputs %s)\n%s" %
                            (r["job"], r["n_crashes"], c["error"], json.dumps(c["assign"])[:300], c.get("tb", "")[-900:]))
    for c in meta.get("required_covers", []):
        if not covers.get(c):
            problems.append("cover point never reached: " + c)
    if agg["reached_end"] == 0:
        problems.append("no path reached the end of a scenario (vacuous)")
    if abandoned:
        problems.append("exploration abandoned after the first confirmed violation (fail fast): counts are partial")

    # ---- violations vs known findings
    known = load_known()
    OUT = os.environ.get("VERIF_OUT", ROOT)      # (mutation runs write their evidence / replay files elsewhere)
    outdir = os.path.join(OUT, "out", pid)
    os.makedirs(outdir, exist_ok=True)
    new_violations, known_hits = [], {}
    seen = set()
    for v in violations:
        key = (v["job"], v["label"])
        if key in seen:
            continue
        seen.add(key)
        hit = next((f for f in known if _matches(f, pid, v)), None)
        if hit is not None:
            known_hits.setdefault(hit["id"], (hit, v))
            continue
        new_violations.append(v)
    lines = []
    for fid, (f, v) in known_hits.items():
        lines.append("KNOWN-FINDING: property=%s %s [%s] e.g. %s" % (pid, f["what"], fid, json.dumps(v["assign"])[:300]))
    rep_paths = []
    by_label = {}
    for v in new_violations:
        by_label.setdefault(v["label"], v)
    for i, (lab, v) in enumerate(sorted(by_label.items())):
        path = os.path.join(outdir, "%s_%d.json" % (tier, i))
        json.dump(dict(property=pid, module=meta["module"], fn=v["fn"], kwargs=v["kwargs"], label=lab,
                       assign=v["assign"], job=v["job"], info=v.get("concrete_info") or v.get("info")),
                  open(path, "w"), indent=1, default=repr)
        rep_paths.append(path)
        lines.append("VIOLATION property=%s replay=%s" % (pid, path))
        lines.append("  obligation: %s | job %s | inputs %s | %s" %
                     (lab, v["job"], json.dumps(v["assign"])[:600], (v.get("concrete_info") or "")[:600]))

    wall = time.time() - t_start
    distinct = sum(1 for r in results if "stats" in r for _ in range(0))  # placeholder, replaced below
    nontrivial = agg["reached_end"]
    ev = dict(
        property_id=pid, tier=tier, seed=seed, level=meta.get("level", "model_checking"),
        coverage=dict(
            states=max(agg["paths"], 0), transitions=max(agg["decisions"], 0),
            traces_validated_against_impl=validated,
            samples=samples or [dict(note="no path produced a sample")],
            obligations=agg["obligations"], discharged=agg["discharged"],
            undecided=agg["unknown_prove"], queries=agg["queries"], solver_s=round(agg["solver_s"], 3),
            paths_aborted_infeasible=agg["aborted"], paths_reaching_end=agg["reached_end"],
            branch_queries_unknown=agg["unknown_branch"], concretised=agg["concretised"],
            evaluations=agg["paths"], distinct_nontrivial=nontrivial,
            rule="one evaluation = one feasible path of the real code (distinct decision vector by construction of "
                 "the prefix worklist); non-trivial = the path reached the end of the scenario with a satisfiable "
                 "path condition (reachability witness), i.e. it was not cut by an assumption",
            exhaustive=not any("incomplete" in p for p in problems) and not problems,
            obligations_by_label=labels, discharged_by_label=dlabels, cover_points=covers,
            functions_encoded=sorted(functions), jobs=[dict(name=n, kwargs=_jsonable_kwargs(j["kwargs"]))
                                                       for n, j in sorted(jd.items())][:80],
            bounds=meta.get("bounds", {}).get(tier, meta.get("bounds", {})),
            stubs=meta.get("stubs", []), outside_claim=meta.get("outside", []),
            engine="symx (proxy based symbolic execution of /repo's current source, z3 %s)" % _z3v(),
            harness_problems=problems, notes=notes, known_findings_hit=sorted(known_hits),
        ),
        assumptions=meta.get("assumptions", []),
        wall_s=round(wall, 2), violations=len(by_label),
    )
    if ev["coverage"]["states"] < 1:
        ev["coverage"]["states"] = 1
    if ev["coverage"]["transitions"] < 1:
        ev["coverage"]["transitions"] = 1
    os.makedirs(os.path.join(OUT, "evidence"), exist_ok=True)
    tmp = os.path.join(OUT, "evidence", pid + ".json.tmp")
    json.dump(ev, open(tmp, "w"), indent=1, default=repr)
    os.replace(tmp, os.path.join(OUT, "evidence", pid + ".json"))

    print("%s %s: %d paths (%d reached end, %d infeasible), %d obligations / %d discharged / %d undecided, "
          "%d queries, solver %.1fs, wall %.1fs, validated %d" %
          (pid, tier, agg["paths"], agg["reached_end"], agg["aborted"], agg["obligations"], agg["discharged"],
           agg["unknown_prove"], agg["queries"], agg["solver_s"], wall, validated))
    for ln in lines:
        print(ln)
    if by_label:
        return 1
    if problems:
        for p in problems:
            print("HARNESS-PROBLEM: " + p)
        return 3
    return 0


def _z3v():
    import z3
    return z3.get_version_string()


def replay(path):
    rec = json.load(open(path))
    import logging
    logging.disable(logging.CRITICAL)
    fn = _resolve(rec["module"], rec["fn"])
    rc = core.run_concrete(fn, {k: core.unjson(v) for k, v in rec["assign"].items()}, rec["kwargs"])
    failed = [l for l, _ in rc.failed]
    print("replay %s: property %s, scenario %s%s" % (path, rec["property"], rec["fn"], rec["kwargs"]))
    print("  inputs: %s" % json.dumps(rec["assign"]))
    if rc.error is not None:
        print("  concrete run raised: %r" % (rc.error,))
    for l, info in rc.failed:
        print("  FAILED obligation: %s %s" % (l, info if info is not None else ""))
    if rec["label"] in failed or (rc.error is not None and core._raised_in_repo(rc.error)):
        print("VIOLATION property=%s replay=%s" % (rec["property"], path))
        return 1
    print("  obligation %r holds on the current tree for these inputs" % rec["label"])
    return 0

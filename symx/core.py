"""symx core: re-execution based symbolic exploration of real Python code with z3.

A *scenario* is a plain Python function ``fn(ctx)`` that drives real basana objects.  Its inputs
come from ``ctx.dec/int/choice/dt/real``: in symbolic mode they are proxy values carrying z3 terms,
in concrete mode (replay, concolic cross-check) they are ordinary ``Decimal``/``int``/``datetime``
values taken from an assignment.  Every data dependent branch of the code under test ends in
``SymBool.__bool__`` -> ``Ctx.branch`` which asks z3 which sides are feasible, follows one and
queues the other (decision prefix).  ``ctx.prove`` discharges ``path /\\ not(property)``.
"""
from __future__ import annotations

import collections
import datetime
import itertools
import time
import uuid
from decimal import Decimal
from fractions import Fraction

import z3


class Abort(BaseException):
    """The current path is infeasible / an assumption cannot be met: drop the path."""


class BudgetExceeded(BaseException):
    pass


class HarnessError(Exception):
    pass


BRANCH_TIMEOUT_MS = 2000
PROVE_TIMEOUT_MS = 120000      # wall-clock: generous, so that a loaded machine does not turn a 20 s query into "undecided"
PRIMARY_TIMEOUT_MS = 150
import os as _os
SLOW_LOG_S = float(_os.environ.get('SYMX_SLOW', '1e9'))
_PROGRESS = int(_os.environ.get('SYMX_PROGRESS', '0'))


class SymBool:
    """Boolean proxy: truth-testing it forks the path."""
    __slots__ = ("e",)

    def __init__(self, e):
        self.e = e

    def __bool__(self):
        return Ctx.cur.branch(self.e)

    def __and__(self, o):
        return SymBool(z3.And(self.e, _b(o)))
    __rand__ = __and__

    def __or__(self, o):
        return SymBool(z3.Or(self.e, _b(o)))
    __ror__ = __or__

    def __invert__(self):
        return SymBool(z3.Not(self.e))

    def __repr__(self):
        return "SymBool(%s)" % (self.e,)


def _b(x):
    """python bool | SymBool | z3 BoolRef -> z3 BoolRef"""
    if isinstance(x, SymBool):
        return x.e
    if isinstance(x, bool):
        return z3.BoolVal(x)
    if z3.is_expr(x):
        return x
    raise TypeError("not a boolean: %r" % (x,))


def _is_sym(x):
    return isinstance(x, SymBool) or z3.is_expr(x)


def And(*xs):
    xs = _flat(xs)
    if not any(_is_sym(x) for x in xs):
        return all(bool(x) for x in xs)
    if any(x is False for x in xs):
        return False
    xs = [_b(x) for x in xs if x is not True]
    return SymBool(z3.And(*xs)) if len(xs) != 1 else SymBool(xs[0])


def Or(*xs):
    xs = _flat(xs)
    if not any(_is_sym(x) for x in xs):
        return any(bool(x) for x in xs)
    if any(x is True for x in xs):
        return True
    xs = [_b(x) for x in xs if x is not False]
    return SymBool(z3.Or(*xs)) if len(xs) != 1 else SymBool(xs[0])


def Not(x):
    if not _is_sym(x):
        return not x
    return SymBool(z3.Not(_b(x)))


def Implies(a, b):
    return Or(Not(a), b)


def Iff(a, b):
    if not _is_sym(a) and not _is_sym(b):
        return bool(a) == bool(b)
    return SymBool(_b(a) == _b(b))


def _flat(xs):
    out = []
    for x in xs:
        if isinstance(x, (list, tuple)):
            out.extend(_flat(x))
        else:
            out.append(x)
    return out


class VarSpec:
    __slots__ = ("name", "kind", "meta", "term")

    def __init__(self, name, kind, meta, term):
        self.name, self.kind, self.meta, self.term = name, kind, meta, term


def _model_value(m, term):
    v = m.eval(term, model_completion=True)
    if z3.is_int_value(v):
        return v.as_long()
    if z3.is_rational_value(v):
        return Fraction(v.numerator_as_long(), v.denominator_as_long())
    if z3.is_algebraic_value(v):
        a = v.approx(20)
        return Fraction(a.numerator_as_long(), a.denominator_as_long())
    if z3.is_true(v):
        return True
    if z3.is_false(v):
        return False
    raise HarnessError("cannot read model value %r" % (v,))


def jsonable(v):
    if isinstance(v, Fraction):
        return {"frac": [str(v.numerator), str(v.denominator)]}
    if isinstance(v, bool):
        return v
    if isinstance(v, int):
        return v if abs(v) < 2 ** 53 else {"int": str(v)}
    return v


def unjson(v):
    if isinstance(v, dict) and "frac" in v:
        return Fraction(int(v["frac"][0]), int(v["frac"][1]))
    if isinstance(v, dict) and "int" in v:
        return int(v["int"])
    return v


class Stats(dict):
    KEYS = ("paths", "aborted", "queries", "solver_s", "unknown_branch", "unknown_prove", "obligations",
            "discharged", "decisions", "forks", "concretised", "reached_end", "candidates", "errors")

    def __init__(self):
        super().__init__({k: 0 for k in self.KEYS})
        self["solver_s"] = 0.0

    def merge(self, other):
        for k, v in other.items():
            self[k] = self.get(k, 0) + v


class Ctx:
    """Exploration context (one per explore() call); Ctx.cur is the active one."""
    cur: "Ctx" = None

    def __init__(self, mode="sym", assign=None):
        self.mode = mode
        self.assign = assign or {}
        self.stats = Stats()
        self.worklist = collections.deque()
        self.candidates = []          # unconfirmed (label, assign, info, decisions)
        self.failed = []              # concrete mode: labels that failed
        self.covers = collections.Counter()
        self.undecided = []
        self.samples = []
        self.notes = []
        self.label_counts = collections.Counter()
        self.discharged_labels = collections.Counter()
        self.patches = []
        self.observed = []
        self.inexact = False
        self.prefix = []
        self.decisions = []
        self.vars = {}
        self.solver = None
        self._model = None
        self._uuid_n = 0
        self._what = ''
        self.branch_timeout = BRANCH_TIMEOUT_MS
        self.prove_timeout = PROVE_TIMEOUT_MS

    # ------------------------------------------------------------------ path management
    def new_path(self, prefix):
        self.prefix = prefix
        self.decisions = []
        self.vars = {}
        self.observed = []
        self.inexact = False
        self.concretised_here = False
        self._uuid_n = 0
        self._fresh = 0
        self._model = None
        self.unknown_here = False
        self._pending = []
        self.scratch = {}       # per-path scratch space for scenarios
        self._fallbacks = 0
        self._decided = {}
        self._keep = []
        from . import lin as _lin
        _lin.reset_atoms()
        if self.mode == "sym":
            self.solver = z3.Solver()
            self.solver.set("smt.arith.solver", 2)
            self._last_solver = self.solver

    def fresh(self, base, sort="int"):
        self._fresh += 1
        n = "%s!%d" % (base, self._fresh)
        return z3.Int(n) if sort == "int" else z3.Real(n)

    def next_uuid(self):
        self._uuid_n += 1
        return uuid.UUID(int=(0xb45a << 112) | self._uuid_n)

    def _check(self, *extra, timeout=None):
        """check-sat under the path condition (+ extra).  Primary solver: z3 with the simplex arithmetic core
        (smt.arith.solver=2, 2-3x faster on these queries); on `unknown` the query is repeated once with z3's default
        arithmetic solver and the full timeout."""
        t = time.perf_counter()
        r = "unknown"
        if self._fallbacks < 2:
            self.solver.set("timeout", min(timeout or self.branch_timeout, PRIMARY_TIMEOUT_MS))
            r = str(self.solver.check(*extra))
            self._last_solver = self.solver
        if r == "unknown":
            # the simplex core occasionally stalls on ite/div heavy queries that the default core answers at once;
            # after two stalls on a path the default core is used directly for the rest of that path
            # Restart ladder.  Measured on this code base (z3 5.1): the same LIA query with nested div/ite terms is
            # answered in milliseconds or not within seconds depending on term order / seed (heavy tailed), so a few
            # short attempts on re-parsed copies with different seeds beat one long attempt.
            tmp = z3.Solver()
            tmp.add(self.solver.assertions())
            tmp.add(*extra)
            text = tmp.sexpr()
            full = timeout or self.branch_timeout
            ladder = [(400, 11, None), (400, 23, 2), (1200, 37, None), (full, 41, None)]
            for ms, seed, arith in ladder:
                s2 = z3.Solver()
                s2.set("timeout", min(ms, full))
                s2.set("smt.random_seed", seed)
                if arith is not None:
                    s2.set("smt.arith.solver", arith)
                s2.from_string(text)
                r = str(s2.check())
                if r != "unknown":
                    break
            self._last_solver = s2
            self._fallbacks += 1
            self.stats["fallback_queries"] = self.stats.get("fallback_queries", 0) + 1
        el = time.perf_counter() - t
        self.stats["solver_s"] += el
        self.stats["queries"] += 1
        if el > SLOW_LOG_S:
            import sys
            print("SLOW query %.1fs -> %s (decisions=%d) %s" % (el, r, len(self.decisions), self._what), file=sys.stderr)
            if _os.environ.get("SYMX_DUMP") and not _os.path.exists(_os.environ["SYMX_DUMP"]) and \
                    (r == "unknown" or not _os.environ.get("SYMX_DUMP_UNKNOWN")):
                s2 = z3.Solver()
                s2.add(self.solver.assertions())
                s2.add(*extra)
                open(_os.environ["SYMX_DUMP"], "w").write(s2.sexpr())
        return r

    def model(self):
        return self._last_solver.model()

    def _holds_in_model(self, cond):
        if self._model is None:
            return None
        try:
            v = self._model.eval(cond, model_completion=True)
        except z3.Z3Exception:
            return None
        if z3.is_true(v):
            return True
        if z3.is_false(v):
            return False
        return None

    def add(self, cond):
        if self._pending:
            self.flush()
        self.solver.add(cond)
        if self._model is not None and self._holds_in_model(cond) is not True:
            self._model = None

    def branch(self, cond):
        """Decide a symbolic condition; returns a python bool and records the decision."""
        if self.mode != "sym":
            raise HarnessError("symbolic branch in concrete mode")
        rid = cond.get_id()
        hit = self._decided.get(rid)
        if hit is not None:
            return hit          # the very same condition was already decided on this path
        raw = cond
        cond = z3.simplify(cond)
        if z3.is_true(cond):
            self._decided[rid] = True
            self._keep.append(raw)
            return True
        if z3.is_false(cond):
            self._decided[rid] = False
            self._keep.append(raw)
            return False
        cid = cond.get_id()
        hit = self._decided.get(cid)
        if hit is not None:
            self._decided[rid] = hit
            self._keep.append(raw)
            return hit
        i = len(self.decisions)
        if i < len(self.prefix):
            d = self.prefix[i]
        else:
            known = self._holds_in_model(cond)
            if known is True:
                can_t = True
                rf = self._check(z3.Not(cond))
                can_f = rf != "unsat"
                if rf == "unknown":
                    self.stats["unknown_branch"] += 1
                    self.unknown_here = True
            elif known is False:
                can_f = True
                rt = self._check(cond)
                can_t = rt != "unsat"
                if rt == "unknown":
                    self.stats["unknown_branch"] += 1
                    self.unknown_here = True
                elif rt == "sat":
                    pass
            else:
                rt = self._check(cond)
                if rt == "sat":
                    self._model = self.model()
                if rt == "unsat":
                    can_t, can_f = False, True
                else:
                    if rt == "unknown":
                        self.stats["unknown_branch"] += 1
                        self.unknown_here = True
                    can_t = True
                    rf = self._check(z3.Not(cond))
                    can_f = rf != "unsat"
                    if rf == "unknown":
                        self.stats["unknown_branch"] += 1
                        self.unknown_here = True
            if can_t and can_f:
                d = True
                self.worklist.append(self.decisions + [False])
                self.stats["forks"] += 1
            elif can_t:
                d = True
            elif can_f:
                d = False
            else:
                raise Abort()
            self.stats["decisions"] += 1
        self.decisions.append(d)
        self.add(cond if d else z3.Not(cond))
        self._decided[cid] = d
        self._decided[rid] = d
        self._keep.append(cond)     # keeps the ASTs (and with them the ids) alive for the rest of the path
        self._keep.append(raw)
        return d

    def assume(self, *conds):
        cond = And(*conds)
        if self.mode != "sym":
            if not cond:
                raise Abort()
            return
        if cond is True:
            return
        if cond is False:
            raise Abort()
        self.add(_b(cond))
        if len(self.decisions) < len(self.prefix):
            return      # replaying a prefix known to be feasible
        if self._model is not None:
            return
        r = self._check()
        if r == "unsat":
            raise Abort()
        if r == "sat":
            self._model = self.model()

    # ------------------------------------------------------------------ inputs
    def _reg(self, name, kind, meta, term):
        if name in self.vars:
            raise HarnessError("duplicate input name %s" % name)
        self.vars[name] = VarSpec(name, kind, meta, term)

    def dec(self, name, prec, lo=None, hi=None):
        """Decimal input with `prec` decimals: value = n * 10**-prec, lo <= n <= hi (coefficient units)."""
        from .dec import SymDec
        if self.mode != "sym":
            # (an input the symbolic path never asked for gets its lower bound: the concrete run may go further)
            n = int(self.assign.get(name, lo if lo is not None else 1))
            self.vars[name] = VarSpec(name, "dec", prec, None)
            return Decimal(n).scaleb(-prec)
        n = z3.Int(name)
        self._reg(name, "dec", prec, n)
        if lo is not None:
            self.add(n >= lo)
        if hi is not None:
            self.add(n <= hi)
        from .lin import Lin
        return SymDec(Lin.atom(n), -prec)

    def int(self, name, lo=None, hi=None):
        from .num import SymInt
        if self.mode != "sym":
            self.vars[name] = VarSpec(name, "int", None, None)
            return int(self.assign.get(name, lo if lo is not None else 0))
        n = z3.Int(name)
        self._reg(name, "int", None, n)
        if lo is not None:
            self.add(n >= lo)
        if hi is not None:
            self.add(n <= hi)
        return SymInt(n)

    def real(self, name, lo=None, hi=None):
        from .num import SymReal
        if self.mode != "sym":
            self.vars[name] = VarSpec(name, "real", None, None)
            return float(unjson(self.assign.get(name, lo if lo is not None else 0)))
        r = z3.Real(name)
        self._reg(name, "real", None, r)
        if lo is not None:
            self.add(r >= lo)
        if hi is not None:
            self.add(r <= hi)
        return SymReal(r)

    def dt(self, name, lo=None, hi=None):
        """UTC datetime input at microsecond resolution, lo <= value <= hi (datetimes)."""
        from .dt import SymDT, to_us, from_us
        if self.mode != "sym":
            self.vars[name] = VarSpec(name, "dt", None, None)
            return from_us(int(self.assign[name])) if name in self.assign else (lo if lo is not None else from_us(0))
        n = z3.Int(name)
        self._reg(name, "dt", None, n)
        if lo is not None:
            self.add(n >= to_us(lo))
        if hi is not None:
            self.add(n <= to_us(hi))
        from .lin import Lin
        return SymDT(Lin.atom(n))

    def choice(self, name, n):
        """Solver-chosen integer in range(n); forks so that the result is a concrete python int."""
        if self.mode != "sym":
            self.vars[name] = VarSpec(name, "choice", n, None)
            return int(self.assign.get(name, 0))
        v = z3.Int(name)
        self._reg(name, "choice", n, v)
        self.add(z3.And(v >= 0, v < n))
        for k in range(n - 1):
            if self.branch(v == k):
                return k
        self.add(v == n - 1)
        return n - 1

    def pick(self, name, options):
        return options[self.choice(name, len(options))]

    def flag(self, name):
        return bool(self.choice(name, 2))

    # ------------------------------------------------------------------ obligations
    def current_assignment(self, model):
        return {n: jsonable(_model_value(model, s.term)) for n, s in self.vars.items()}

    def prove(self, cond, label, info=None):
        """Obligation: `cond` must hold for every input on this path.

        Obligations issued while a decision prefix is being replayed were already decided on the path that created
        the prefix (same path condition, deterministic re-execution) and are skipped.  Consecutive obligations with no
        intervening change of the path condition are discharged by one query (flush())."""
        cond = And(cond) if isinstance(cond, (list, tuple)) else cond
        if self.mode != "sym":
            self.stats["obligations"] += 1
            self.label_counts[label] += 1
            if _is_sym(cond):
                raise HarnessError("symbolic obligation in concrete mode: " + label)
            if not cond:
                self.failed.append((label, info))
            else:
                self.stats["discharged"] += 1
            return
        if len(self.decisions) < len(self.prefix):
            return
        self.stats["obligations"] += 1
        self.label_counts[label] += 1
        if not _is_sym(cond) and cond:
            self.stats["discharged"] += 1
            self.discharged_labels[label] += 1
            return
        self._pending.append((z3.BoolVal(False) if not _is_sym(cond) else _b(cond), label, info))

    def flush(self):
        """Discharge the buffered obligations under the current path condition."""
        pend, self._pending = self._pending, []
        while pend:
            self._what = "prove %d obligation(s): %s" % (len(pend), pend[0][1])
            r = self._check(z3.Or(*[z3.Not(c) for c, _, _ in pend]) if len(pend) > 1 else z3.Not(pend[0][0]),
                            timeout=self.prove_timeout)
            self._what = ""
            if r == "unsat":
                for _, label, _ in pend:
                    self.stats["discharged"] += 1
                    self.discharged_labels[label] += 1
                return
            if r == "sat":
                m = self.model()
                if not self._model_satisfies_path(m):
                    # z3 handed back a model that does not satisfy the path condition it was produced for (seen once,
                    # on a loaded machine, from a restarted copy of the query): decide the batch again, member by
                    # member, with a fresh solver and no time cap short of the obligation timeout
                    self.stats["bogus_models"] = self.stats.get("bogus_models", 0) + 1
                    for c, label, info in pend:
                        self._decide_fresh(c, label, info)
                    return
                rest = []
                hit = False
                for c, label, info in pend:
                    if z3.is_false(m.eval(c, model_completion=True)):
                        hit = True
                        self.stats["candidates"] += 1
                        self.candidates.append(dict(label=label, assign=self.current_assignment(m),
                                                    info=_short(info), decisions=len(self.decisions)))
                    else:
                        rest.append((c, label, info))
                if not hit:
                    # the model does not evaluate any member to a literal `false` (partial evaluation of div/mod or
                    # quotient terms): decide the members one by one; a single member the solver refutes is taken as
                    # a candidate with the solver's model and the concrete replay decides
                    if len(pend) == 1:
                        c, label, info = pend[0]
                        self.stats["candidates"] += 1
                        self.candidates.append(dict(label=label, assign=self.current_assignment(m),
                                                    info=_short(info), decisions=len(self.decisions)))
                        return
                    for item in pend:
                        self._pending = [item]
                        self.flush()
                    return
                pend = rest
                continue
            # unknown: fall back to one query per obligation
            if len(pend) == 1:
                self.stats["unknown_prove"] += 1
                self.undecided.append(dict(label=pend[0][1], decisions=len(self.decisions)))
                return
            one, pend = pend[:1], pend[1:]
            self._pending = one
            self.flush()

    def _model_satisfies_path(self, m):
        try:
            return all(z3.is_true(m.eval(a, model_completion=True)) for a in self.solver.assertions())
        except z3.Z3Exception:
            return False

    def _decide_fresh(self, c, label, info):
        s3 = z3.Solver()
        s3.set("timeout", self.prove_timeout)
        s3.add(self.solver.assertions())
        s3.add(z3.Not(c))
        t = time.perf_counter()
        r = str(s3.check())
        self.stats["solver_s"] += time.perf_counter() - t
        self.stats["queries"] += 1
        if r == "unsat":
            self.stats["discharged"] += 1
            self.discharged_labels[label] += 1
            return
        if r == "sat":
            m = s3.model()
            if all(z3.is_true(m.eval(a, model_completion=True)) for a in self.solver.assertions()):
                self.stats["candidates"] += 1
                self.candidates.append(dict(label=label, assign=self.current_assignment(m), info=_short(info),
                                            decisions=len(self.decisions)))
                return
        self.stats["unknown_prove"] += 1
        self.undecided.append(dict(label=label, decisions=len(self.decisions)))

    def cover(self, label):
        self.covers[label] += 1

    def observe(self, name, value):
        """Record an intermediate value for the concolic cross-check (same call in both modes)."""
        self.observed.append((name, value))

    def note(self, text):
        if text not in self.notes and len(self.notes) < 50:
            self.notes.append(text)

    def concretise(self, term, why):
        """Pin a term to its value in the current model (unsupported operation)."""
        self.stats["concretised"] += 1
        self.concretised_here = True
        self.note("concretised: " + why)
        if self._check() != "sat":
            raise Abort()
        m = self.model()
        v = m.eval(term, model_completion=True)
        self.add(term == v)
        return _model_value(m, term)

    # ------------------------------------------------------------------ patching of module attributes
    def patch(self, obj, attr, value, both_modes=False):
        """Rebind obj.attr for the duration of the path (symbolic mode only unless both_modes)."""
        if self.mode != "sym" and not both_modes:
            return
        self.patches.append((obj, attr, getattr(obj, attr)))
        setattr(obj, attr, value)

    def unpatch(self):
        while self.patches:
            obj, attr, old = self.patches.pop()
            setattr(obj, attr, old)

    def end_of_path(self):
        """Reachability witness: the path condition at the end of the scenario must be satisfiable."""
        if self.mode != "sym":
            self.stats["reached_end"] += 1
            return None
        self.flush()
        if self._model is None:
            r = self._check()
            if r != "sat":
                return None
            self._model = self.model()
        self.stats["reached_end"] += 1
        return self._model


def _raised_in_repo(exc):
    """was the exception raised by the code under test (and not by the harness touching a renamed internal)?"""
    import os
    repo = os.environ.get("VERIF_REPO", "/repo")
    tb = exc.__traceback__
    last = None
    while tb is not None:
        last = tb
        tb = tb.tb_next
    return last is not None and last.tb_frame.f_code.co_filename.startswith(repo + "/")


def _short(info):
    if info is None:
        return None
    s = repr(info)
    return s if len(s) < 2000 else s[:2000] + "..."


def run_concrete(fn, assign, kwargs=None):
    """Run a scenario on ordinary python values; returns the Ctx (failed labels in .failed)."""
    prev = Ctx.cur
    ctx = Ctx(mode="concrete", assign=assign)
    Ctx.cur = ctx
    ctx.new_path([])
    err = None
    try:
        with _uuid_patch(ctx):
            fn(ctx, **(kwargs or {}))
            ctx.end_of_path()
    except Abort:
        ctx.stats["aborted"] += 1
    except BudgetExceeded:
        raise
    except Exception as e:          # noqa: a crash of the real code on concrete inputs is itself a finding
        err = e
    finally:
        ctx.unpatch()
        Ctx.cur = prev
    ctx.error = err
    return ctx


class _uuid_patch:
    """Deterministic uuid4 (ids never feed branches, but set/dict order of ids must not depend on randomness)."""
    def __init__(self, ctx):
        self.ctx = ctx

    def __enter__(self):
        self.old = uuid.uuid4
        uuid.uuid4 = self.ctx.next_uuid

    def __exit__(self, *a):
        uuid.uuid4 = self.old
        return False


def explore(fn, kwargs=None, prefixes=None, max_paths=100000, deadline=None, frontier=None, sample_every=None,
            validate_every=None, seed=0):
    """Explore every feasible path of fn(ctx, **kwargs).

    frontier: if set, stop (breadth first) once that many pending prefixes exist and return them in
    result["pending"] (used to shard one scenario over worker processes).
    """
    kwargs = kwargs or {}
    ctx = Ctx("sym")
    ctx.worklist.extend(prefixes if prefixes is not None else [[]])
    confirmed = {}
    unreproduced = []
    crashes = []
    validated = 0
    spurious = 0
    mismatches = []
    t0 = time.perf_counter()
    incomplete = False
    while ctx.worklist:
        if ctx.stats["paths"] >= max_paths or (deadline is not None and time.time() > deadline):
            incomplete = True
            break
        if frontier is not None and (len(ctx.worklist) >= frontier or
                                     (ctx.stats["paths"] >= frontier and len(ctx.worklist) >= 16)):
            break
        prefix = ctx.worklist.popleft() if frontier is not None else ctx.worklist.pop()
        Ctx.cur = ctx
        ctx.new_path(prefix)
        ctx.stats["paths"] += 1
        if _PROGRESS and ctx.stats["paths"] % _PROGRESS == 0:
            import sys
            print("progress: %d paths, worklist %d, %.0fs, queries %d solver %.0fs" % (
                ctx.stats["paths"], len(ctx.worklist), time.perf_counter() - t0, ctx.stats["queries"],
                ctx.stats["solver_s"]), file=sys.stderr)
        ncand = len(ctx.candidates)
        model = None
        try:
            with _uuid_patch(ctx):
                fn(ctx, **kwargs)
                model = ctx.end_of_path()
        except Abort:
            ctx._pending = []
            ctx.stats["aborted"] += 1
        except BudgetExceeded:
            incomplete = True
        except Exception as e:
            ctx._pending = []
            # the real code (or the scenario) raised something unexpected on this path: replay decides what it is
            ctx.stats["errors"] += 1
            import traceback
            tb = traceback.format_exc(limit=12)
            # (feasibility of the erroring path is decided with the generous obligation timeout: the path may have been
            # entered through a branch the solver could not decide within the short branch timeout)
            r = ctx._check(timeout=ctx.prove_timeout)
            lab = "no unexpected exception out of the code under test (%s)" % type(e).__name__
            if r == "sat" and lab not in confirmed:
                a = ctx.current_assignment(ctx.model())
                ctx.unpatch()
                rc = run_concrete(fn, {k: unjson(v) for k, v in a.items()}, kwargs)
                validated += 1
                if rc.error is not None and type(rc.error) is type(e) and _raised_in_repo(rc.error):
                    confirmed[lab] = dict(label=lab, assign=a, info=None, decisions=len(ctx.decisions), count=1,
                                          concrete_info="%r\n%s" % (rc.error, tb[-1200:]))
                else:
                    crashes.append(dict(error=repr(e), assign=a, tb=tb))
            elif r == "unsat":
                # the path was entered through a branch z3 could not decide and turned out to be infeasible
                ctx.stats["aborted"] += 1
                ctx.stats["errors"] -= 1
            elif r != "sat":
                crashes.append(dict(error=repr(e), assign=None, tb=tb))
        finally:
            ctx.unpatch()
        # replay new candidates concretely
        for cand in ctx.candidates[ncand:]:
            lab = cand["label"]
            if lab in confirmed and confirmed[lab]["count"] >= 1:
                confirmed[lab]["count"] += 1
                continue
            rc = run_concrete(fn, {k: unjson(v) for k, v in cand["assign"].items()}, kwargs)
            validated += 1
            if any(l == lab for l, _ in rc.failed):
                cand = dict(cand, count=1, concrete_info=_short([i for l, i in rc.failed if l == lab][0]))
                confirmed[lab] = cand
            elif rc.error is not None and _raised_in_repo(rc.error):
                cand = dict(cand, count=1, concrete_info="concrete run raised %r" % (rc.error,))
                confirmed[lab] = cand
            elif ctx.unknown_here:
                spurious += 1       # the path passed through a branch z3 could not decide: it may be infeasible
            else:
                unreproduced.append(cand)
        # samples and concolic validation of passing paths
        if model is not None:
            n_end = ctx.stats["reached_end"]
            if sample_every and (n_end % sample_every == 1 or sample_every == 1) and len(ctx.samples) < 5:
                ctx.samples.append(dict(inputs=ctx.current_assignment(model), decisions=len(ctx.decisions),
                                        covers=sorted(set(ctx.covers))[:12]))
            if validate_every and n_end % validate_every == (1 if validate_every > 1 else 0) and \
                    not ctx.concretised_here:
                a = ctx.current_assignment(model)
                sym_obs = [(n, _eval_obs(model, v)) for n, v in ctx.observed]
                inexact = ctx.inexact
                rc = run_concrete(fn, {k: unjson(v) for k, v in a.items()}, kwargs)
                validated += 1
                con_obs = [(n, _eval_obs(None, v)) for n, v in rc.observed]
                if rc.error is not None:
                    mismatches.append(dict(assign=a, why="concrete run raised %r" % (rc.error,)))
                elif not inexact and sym_obs != con_obs:
                    diff = [(s, c) for s, c in itertools.zip_longest(sym_obs, con_obs) if s != c][:3]
                    mismatches.append(dict(assign=a, why="observations differ: %r" % (diff,)))
                else:
                    here = {c["label"] for c in ctx.candidates[ncand:]}
                    bad = [l for l, _ in rc.failed if l not in here]
                    if bad and not inexact:
                        mismatches.append(dict(assign=a, why="obligation %s fails concretely but was discharged" %
                                               bad[0]))
    Ctx.cur = None
    st = dict(ctx.stats)
    st["wall_s"] = time.perf_counter() - t0
    return dict(stats=st, confirmed=list(confirmed.values()), unreproduced=unreproduced[:5],
                n_unreproduced=len(unreproduced), crashes=crashes[:5], n_crashes=len(crashes),
                undecided=ctx.undecided[:5], n_undecided=len(ctx.undecided), covers=dict(ctx.covers),
                samples=ctx.samples, notes=ctx.notes, incomplete=incomplete,
                pending=[list(p) for p in ctx.worklist], validated=validated, mismatches=mismatches[:5],
                n_mismatches=len(mismatches), spurious=spurious, labels=dict(ctx.label_counts),
                discharged_labels=dict(ctx.discharged_labels))


def _eval_obs(model, v):
    """Normalise an observed value to something comparable across modes."""
    from .dec import SymDec
    from .num import SymInt, SymReal
    from .dt import SymDT, to_us
    if isinstance(v, SymDec):
        return str(v.value_in(model))
    if isinstance(v, SymInt):
        return str(Fraction(_model_value(model, v.e)))
    if isinstance(v, SymReal):
        return "real"
    if isinstance(v, SymDT):
        from .lin import value as _lv
        return "dt%d" % _lv(model, v._e)
    if isinstance(v, SymBool):
        return str(bool(_model_value(model, v.e)))
    if isinstance(v, Decimal):
        return str(Fraction(v)) if v.is_finite() else str(v)
    if isinstance(v, bool):
        return str(v)
    if isinstance(v, int):
        return str(Fraction(v))
    if isinstance(v, float):
        return "real"
    if isinstance(v, datetime.datetime):
        return "dt%d" % to_us(v)
    if isinstance(v, (list, tuple)):
        return [_eval_obs(model, x) for x in v]
    if isinstance(v, dict):
        return {k: _eval_obs(model, x) for k, x in sorted(v.items())}
    return repr(v)

"""Lin: integer linear forms over z3 atoms, kept in plain python until a solver term is needed.

Almost all arithmetic the exchange performs on symbolic decimals is linear in the inputs (one factor of every
product is concrete, scaling by powers of ten, sums).  Building a z3 term for every + and * through the z3py operator
overloads dominated the run time (profile: 80 % in _coerce_exprs/IntVal/ExprRef), so coefficients are carried as
{atom_id: int} dictionaries and converted once, through the low-level API, when a comparison needs a term.
"""
from __future__ import annotations

import z3
from z3 import z3core as zc

_CTX = z3.main_ctx()
_C = _CTX.ref()
_INT = z3.IntSort()
_INT_AST = _INT.ast
_ATOMS = {}        # atom id -> z3 ArithRef (kept alive for the process; ids are hash-consed by z3)
_NUMS = {}


def _num(n):
    r = _NUMS.get(n)
    if r is None:
        if -2 ** 62 < n < 2 ** 62:
            r = z3.ArithRef(zc.Z3_mk_int64(_C, n, _INT_AST), _CTX)
        else:
            r = z3.ArithRef(zc.Z3_mk_numeral(_C, str(n), _INT_AST), _CTX)
        if len(_NUMS) < 200000:
            _NUMS[n] = r
    return r


def reset_atoms():
    _ATOMS.clear()


class Lin:
    """sum(coef * atom) + k   (immutable)"""
    __slots__ = ("t", "k", "_z")

    def __init__(self, t, k):
        self.t = t
        self.k = k
        self._z = None

    @staticmethod
    def const(n):
        return Lin({}, int(n))

    @staticmethod
    def atom(term):
        i = term.get_id()
        _ATOMS[i] = term
        return Lin({i: 1}, 0)

    def is_const(self):
        return not self.t

    def z(self):
        """the z3 term"""
        r = self._z
        if r is not None:
            return r
        if not self.t:
            r = _num(self.k)
        else:
            parts = []
            for i, c in self.t.items():
                a = _ATOMS[i]
                if c == 1:
                    parts.append(a)
                else:
                    nc = _num(c)
                    args = (z3.Ast * 2)(nc.as_ast(), a.as_ast())
                    parts.append(z3.ArithRef(zc.Z3_mk_mul(_C, 2, args), _CTX))
            if self.k:
                parts.append(_num(self.k))      # (the list keeps every wrapper alive until mk_add returns)
            if len(parts) == 1:
                r = parts[0]
            else:
                args = (z3.Ast * len(parts))(*[p.as_ast() for p in parts])
                r = z3.ArithRef(zc.Z3_mk_add(_C, len(parts), args), _CTX)
        self._z = r
        return r

    def __repr__(self):
        return "Lin(%s)" % (self.z(),)


def lin(x):
    if isinstance(x, Lin):
        return x
    if isinstance(x, int):
        return Lin({}, x)
    if z3.is_expr(x):
        if z3.is_int_value(x):
            return Lin({}, x.as_long())
        return Lin.atom(x)
    raise TypeError("cannot make a linear form from %r" % (x,))


def add(a, b):
    if not b.t:
        return Lin(a.t, a.k + b.k) if b.k else a
    if not a.t:
        return Lin(b.t, a.k + b.k) if a.k else b
    t = dict(a.t)
    for i, c in b.t.items():
        v = t.get(i, 0) + c
        if v:
            t[i] = v
        else:
            del t[i]
    return Lin(t, a.k + b.k)


def scale(a, n):
    if n == 1:
        return a
    if n == 0:
        return Lin({}, 0)
    return Lin({i: c * n for i, c in a.t.items()}, a.k * n)


def neg(a):
    return scale(a, -1)


def sub(a, b):
    return add(a, neg(b))


def mul(a, b):
    if not a.t:
        return scale(b, a.k)
    if not b.t:
        return scale(a, b.k)
    za, zb = a.z(), b.z()
    args = (z3.Ast * 2)(za.as_ast(), zb.as_ast())
    return Lin.atom(z3.ArithRef(zc.Z3_mk_mul(_C, 2, args), _CTX))


def _cmp_term(kind, a, b):
    """z3 BoolRef for  a <kind> b ;  python bool when both constant"""
    d = sub(a, b)
    if not d.t:
        k = d.k
        return {"lt": k < 0, "le": k <= 0, "gt": k > 0, "ge": k >= 0, "eq": k == 0, "ne": k != 0}[kind]
    # sum(terms) <kind> -k
    lz = Lin(d.t, 0).z()      # keep the python wrappers alive until the term that uses them exists
    rz = _num(-d.k)
    lhs, rhs = lz.as_ast(), rz.as_ast()
    if kind == "lt":
        r = zc.Z3_mk_lt(_C, lhs, rhs)
    elif kind == "le":
        r = zc.Z3_mk_le(_C, lhs, rhs)
    elif kind == "gt":
        r = zc.Z3_mk_gt(_C, lhs, rhs)
    elif kind == "ge":
        r = zc.Z3_mk_ge(_C, lhs, rhs)
    elif kind == "eq":
        r = zc.Z3_mk_eq(_C, lhs, rhs)
    else:
        e = z3.BoolRef(zc.Z3_mk_eq(_C, lhs, rhs), _CTX)
        return z3.BoolRef(zc.Z3_mk_not(_C, e.as_ast()), _CTX)
    return z3.BoolRef(r, _CTX)


def cmp(kind, a, b):
    return _cmp_term(kind, a, b)


def ite(cond, a, b):
    """cond: z3 BoolRef"""
    za, zb = a.z(), b.z()
    return Lin.atom(z3.ArithRef(zc.Z3_mk_ite(_C, cond.as_ast(), za.as_ast(), zb.as_ast()), _CTX))


def value(model, a):
    if not a.t:
        return a.k
    v = model.eval(a.z(), model_completion=True)
    return v.as_long()

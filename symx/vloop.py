import asyncio, selectors, datetime
class _VSelector(selectors.SelectSelector):
    def __init__(self, loop_ref):
        super().__init__(); self._loop_ref = loop_ref
    def select(self, timeout=None):
        ready = super().select(0)
        if not ready and timeout is not None and timeout > 0:
            lp = self._loop_ref[0]
            nxt = lp._scheduled[0]._when if lp._scheduled else lp._vtime + timeout
            lp._vtime = max(lp._vtime + 0.0, nxt)
        return ready
class VLoop(asyncio.SelectorEventLoop):
    """Event loop whose clock only advances when every task is blocked on a timer (virtual time)."""
    def __init__(self, start=1_700_000_000.0):
        ref = [None]
        super().__init__(_VSelector(ref)); ref[0] = self
        self._vtime = start
        self._clock_resolution = 1e-6
    def time(self): return self._vtime
    def utc_now(self):
        return datetime.datetime.fromtimestamp(self._vtime, tz=datetime.timezone.utc)
def vrun(coro, start=1_700_000_000.0):
    loop = VLoop(start)
    try:
        asyncio.set_event_loop(loop)
        return loop.run_until_complete(coro)
    finally:
        asyncio.set_event_loop(None); loop.close()

"""Self-test of the proxies against the real decimal / datetime modules (runs before every check, < 2 s).

Vectors: the repository's own test parameters for truncate/round, fee and interest arithmetic plus boundary
decimals (ties for HALF_EVEN, negatives for ROUND_UP/ROUND_DOWN, exponents +-12).  Each vector is evaluated
(1) on concrete-coefficient SymDecs and (2) symbolically with the coefficient pinned by an equality, and must
equal the real Decimal result exactly.
"""
import datetime
import decimal
import itertools
from decimal import Decimal
from fractions import Fraction

import z3

from . import core
from .core import Ctx
from .dec import SymDec, lift, smax, smin
from .dt import SymDT, to_us, from_us

ROUNDINGS = [decimal.ROUND_DOWN, decimal.ROUND_UP, decimal.ROUND_HALF_EVEN]
VALUES = ["0", "1", "-1", "1.1", "-1.1", "-1.1999", "0.2999", "0.125", "0.135", "-0.125", "2.5", "3.5", "-2.5",
          "0.005", "0.015", "0.025", "-0.005", "1E+3", "1.00E-8", "123456789.987654321", "1E-12", "999999999999",
          "0.00000003", "127.83333333", "33", "0.12", "0.11", "49999.995", "0.0000000050", "1.0000000050"]


def _mk(v, symbolic, ctx):
    d = Decimal(v)
    c, x, _ = lift(d)
    if not symbolic:
        return SymDec(c, x)
    n = ctx.fresh("st")
    ctx.add(n == c.k)
    return SymDec(n, x)


def _val(s, ctx):
    if isinstance(s, SymDec):
        if s.is_concrete():
            return Fraction(s.c.k) * Fraction(10) ** s.x / (1 if isinstance(s.d, int) else s.d.k)
        assert ctx._check() == "sat"
        return s.value_in(ctx.solver.model())
    return Fraction(s)


def main(quiet=False):
    bad = []
    n = 0
    ctx = Ctx("sym")
    Ctx.cur = ctx
    try:
        for symbolic in (False, True):
            for a in VALUES:
                for prec in (0, 2, 8):
                    for rnd in ROUNDINGS:
                        ctx.new_path([])
                        want = Decimal(a).quantize(Decimal(1).scaleb(-prec), rounding=rnd)
                        got = _mk(a, symbolic, ctx).quantize(Decimal(1).scaleb(-prec), rounding=rnd)
                        n += 1
                        if _val(got, ctx) != Fraction(want) or got.x != want.as_tuple().exponent:
                            bad.append(("quantize", a, prec, rnd, str(want), repr(got)))
            for a, b in itertools.product(VALUES[:14], VALUES[3:12]):
                ctx.new_path([])
                A, B = _mk(a, symbolic, ctx), Decimal(b)
                da, db = Decimal(a), Decimal(b)
                for name, f in (("add", lambda x, y: x + y), ("sub", lambda x, y: x - y), ("rsub", lambda x, y: y - x),
                                ("mul", lambda x, y: x * y), ("div", lambda x, y: x / y),
                                ("max", lambda x, y: smax(x, y)), ("min", lambda x, y: smin(x, y))):
                    n += 1
                    want = Fraction(da) / Fraction(db) if name == "div" else Fraction(f(da, db))
                    got = _val(f(A, B), ctx)
                    if got != want:
                        bad.append((name, a, b, str(want), str(got)))
                for name, f in (("lt", lambda x, y: x < y), ("le", lambda x, y: x <= y), ("eq", lambda x, y: x == y),
                                ("ge", lambda x, y: x >= y)):
                    n += 1
                    r = f(A, B)
                    if isinstance(r, core.SymBool):
                        r = ctx._check(r.e) == "sat"
                    if bool(r) != f(da, db):
                        bad.append((name, a, b))
        # datetimes
        t0 = datetime.datetime(2020, 1, 1, 0, 0, 59, 999999, tzinfo=datetime.timezone.utc)
        ctx.new_path([])
        s = SymDT(z3.IntVal(to_us(t0)))
        s2 = s + datetime.timedelta(seconds=60, milliseconds=-1)
        n += 1
        from .lin import value as _lv
        if from_us(_lv(_m(ctx), s2._e)) != t0 + datetime.timedelta(
                seconds=60, milliseconds=-1):
            bad.append(("dt add",))
        # whole seconds since 1970 through utctimetuple() + calendar.timegm()
        import calendar
        for delta_us in (0, 1, 999999, 1000000, -1, 86399999999):
            n += 1
            sd = s + datetime.timedelta(microseconds=delta_us)
            rd = t0 + datetime.timedelta(microseconds=delta_us)
            got = calendar.timegm(sd.utctimetuple())
            if _m(ctx).eval(got.e, model_completion=True).as_long() != calendar.timegm(rd.utctimetuple()):
                bad.append(("timegm", delta_us))
        # time-zone labels: astimezone keeps the instant, replace(tzinfo=) keeps the wall-clock reading
        tzs = [datetime.timezone.utc] + [datetime.timezone(datetime.timedelta(hours=h)) for h in (2, -3, 9)]
        for tz1 in tzs:
            for tz2 in tzs:
                for tz3 in tzs:
                    n += 1
                    real = (t0.astimezone(tz1) + datetime.timedelta(hours=1)).replace(tzinfo=tz2).astimezone(tz3)
                    sym = (s.astimezone(tz1) + datetime.timedelta(hours=1)).replace(tzinfo=tz2).astimezone(tz3)
                    if from_us(_lv(_m(ctx), sym._e)) != real or sym.tzinfo.utcoffset(None) != real.utcoffset():
                        bad.append(("dt tz", tz1, tz2, tz3))
    finally:
        Ctx.cur = None
    if bad:
        print("SELFTEST FAILED (%d of %d): %s" % (len(bad), n, bad[:5]))
        return 1
    if not quiet:
        print("selftest ok: %d proxy-vs-real comparisons" % n)
    return 0


def _m(ctx):
    assert ctx._check() == "sat"
    return ctx.solver.model()

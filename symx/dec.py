"""SymDec: exact symbolic stand-in for decimal.Decimal.

value = c * 10**x / d   with  c a z3 Int term, x a concrete python int (mirrors Decimal's exponent, so
quantize/precision questions stay structural), d == 1 or a z3 Int term known to be > 0 (only after a
division by a symbolic value).  All of + - * / comparisons abs quantize are exact (no 28 digit context
rounding: inputs are bounded so that the checked code never exceeds 28 digits except in true divisions).

SymDec subclasses Decimal (client code dispatches on isinstance(v, Decimal)); its C level payload is a
signalling NaN so that any C level operation that would read the payload raises instead of silently
computing with a dummy.
"""
from __future__ import annotations

import decimal
from decimal import Decimal
from fractions import Fraction

import z3

from . import core
from .core import Ctx, SymBool


def _is1(d):
    return isinstance(d, int) and d == 1


def lift(x):
    """-> (coef, exponent, den) or None (non finite) or NotImplemented"""
    if isinstance(x, SymDec):
        return (x.c, x.x, x.d)
    if isinstance(x, bool):
        return NotImplemented
    if isinstance(x, int):
        return (x, 0, 1)
    from .num import SymInt
    if isinstance(x, SymInt):
        return (x.e, 0, 1)
    if isinstance(x, Decimal):
        if not x.is_finite():
            return None
        sign, digits, exp = x.as_tuple()
        c = int("".join(map(str, digits)) or "0")
        return (-c if sign else c, exp, 1)
    if isinstance(x, float):
        f = Fraction(x)
        return (f.numerator, 0, f.denominator)
    if isinstance(x, Fraction):
        return (x.numerator, 0, x.denominator)
    return NotImplemented


def _same_den(da, db):
    if isinstance(da, int) and isinstance(db, int):
        return da == db
    if isinstance(da, int) or isinstance(db, int):
        return False
    return da.eq(db)


def _align(a, b):
    """numerators na, nb over a common positive denominator d and common exponent x"""
    (ca, xa, da), (cb, xb, db) = a, b
    x = min(xa, xb)
    na = ca * 10 ** (xa - x) if xa != x else ca
    nb = cb * 10 ** (xb - x) if xb != x else cb
    if _is1(da) and _is1(db):
        return na, nb, x, 1
    if _same_den(da, db):
        return na, nb, x, da
    return na * db, nb * da, x, da * db


_INF_CMP = {"lt": lambda pos: pos, "le": lambda pos: pos, "gt": lambda pos: not pos, "ge": lambda pos: not pos,
            "eq": lambda pos: False, "ne": lambda pos: True}


def _cmp(op):
    def f(self, other):
        if isinstance(other, Decimal) and not isinstance(other, SymDec) and not other.is_finite():
            if other.is_nan():
                raise decimal.InvalidOperation("comparison with NaN")
            return _INF_CMP[op](other > 0)
        o = lift(other)
        if o is NotImplemented:
            return NotImplemented
        a, b, _, _ = _align((self.c, self.x, self.d), o)
        if isinstance(a, int) and isinstance(b, int):
            return {"lt": a < b, "le": a <= b, "gt": a > b, "ge": a >= b, "eq": a == b, "ne": a != b}[op]
        e = {"lt": a < b, "le": a <= b, "gt": a > b, "ge": a >= b, "eq": a == b, "ne": a != b}[op]
        return SymBool(e)
    return f


def fdiv(c, k):
    """floor(c / k) for k > 0 (python int or z3 term) through a fresh quotient variable"""
    if isinstance(c, int) and isinstance(k, int):
        return c // k
    ctx = Ctx.cur
    q = ctx.fresh("q")
    ctx.add(z3.And(k * q <= c, c < k * q + k))
    return q


_SNAN = "sNaN"


class SymDec(Decimal):
    __slots__ = ("c", "x", "d")

    def __new__(cls, c, x, d=1):
        self = Decimal.__new__(cls, _SNAN)
        self.c = c
        self.x = x
        self.d = d
        return self

    # ---- comparisons / truth
    __lt__ = _cmp("lt")
    __le__ = _cmp("le")
    __gt__ = _cmp("gt")
    __ge__ = _cmp("ge")
    __eq__ = _cmp("eq")
    __ne__ = _cmp("ne")
    __hash__ = None

    def __bool__(self):
        if isinstance(self.c, int):
            return self.c != 0
        return Ctx.cur.branch(self.c != 0)

    # ---- arithmetic
    def __neg__(self):
        return SymDec(-self.c, self.x, self.d)

    def __pos__(self):
        return self

    def __abs__(self):
        if isinstance(self.c, int):
            return SymDec(abs(self.c), self.x, self.d)
        return SymDec(z3.If(self.c >= 0, self.c, -self.c), self.x, self.d)

    def _bin(self, o, f, swap=False):
        if isinstance(o, Decimal) and not isinstance(o, SymDec) and not o.is_finite():
            return _inf_arith(self, o, swap)
        o = lift(o)
        if o is NotImplemented:
            return NotImplemented
        a, b, x, d = _align((self.c, self.x, self.d), o)
        return SymDec(f(b, a) if swap else f(a, b), x, d)

    def __add__(self, o):
        return self._bin(o, lambda a, b: a + b)
    __radd__ = __add__

    def __sub__(self, o):
        return self._bin(o, lambda a, b: a - b)

    def __rsub__(self, o):
        return self._bin(o, lambda a, b: a - b, swap=True)

    def __mul__(self, o):
        o = lift(o)
        if o is NotImplemented or o is None:
            return NotImplemented
        if _is1(o[2]):
            d = self.d
        elif _is1(self.d):
            d = o[2]
        else:
            d = self.d * o[2]
        return SymDec(self.c * o[0], self.x + o[1], d)
    __rmul__ = __mul__

    @staticmethod
    def _div(num, den):
        (cn, xn, dn), (cd, xd, dd) = num, den
        Ctx.cur.inexact = True
        if isinstance(cd, int):
            if cd == 0:
                raise decimal.DivisionByZero()
            sgn = 1 if cd > 0 else -1
            n = cn * sgn if _is1(dd) else cn * dd * sgn
            k = abs(cd)
            d = dn if k == 1 else (k if _is1(dn) else dn * k)
            if k != 1 and _is1(dn):
                # division by a concrete power of ten (x/100) stays exact with a shifted exponent
                p = _pow10(k)
                if p is not None:
                    return SymDec(n, xn - xd - p, 1)
            return SymDec(n, xn - xd, d)
        ctx = Ctx.cur
        pos = ctx.branch(cd > 0)
        if not pos:
            if not ctx.branch(cd < 0):
                if isinstance(cn, int) and cn == 0:
                    raise decimal.InvalidOperation()
                raise decimal.DivisionByZero()
            cd, cn = -cd, -cn
        n = cn if _is1(dd) else cn * dd
        d = cd if _is1(dn) else dn * cd
        return SymDec(n, xn - xd, d)

    def __truediv__(self, o):
        o = lift(o)
        if o is NotImplemented or o is None:
            return NotImplemented
        return SymDec._div((self.c, self.x, self.d), o)

    def __rtruediv__(self, o):
        o = lift(o)
        if o is NotImplemented or o is None:
            return NotImplemented
        return SymDec._div(o, (self.c, self.x, self.d))

    def __pow__(self, o, mod=None):
        if mod is None and (o == 2 or (isinstance(o, Decimal) and not isinstance(o, SymDec) and o == 2)):
            return self * self
        return _trap("__pow__")(self, o)

    def quantize(self, exp, rounding=None, context=None):
        if isinstance(exp, SymDec):
            return _trap("quantize(symbolic exponent)")(self, exp)
        p = Decimal(exp).as_tuple().exponent       # target exponent
        if self.x >= p and _is1(self.d):
            return SymDec(self.c * 10 ** (self.x - p) if self.x != p else self.c, p)
        if self.x >= p:
            c, k = self.c * 10 ** (self.x - p), self.d
        else:
            c, k = self.c, self.d * 10 ** (p - self.x)
        if rounding is None:
            rounding = decimal.getcontext().rounding
        fl = fdiv(c, k)
        rem = c - k * fl   # in [0, k)
        if isinstance(fl, int) and isinstance(rem, int):
            neg = c < 0
            if rounding == decimal.ROUND_DOWN:
                r = fl if (not neg or rem == 0) else fl + 1
            elif rounding == decimal.ROUND_UP:
                r = fl + 1 if (not neg and rem != 0) else fl
            elif rounding == decimal.ROUND_HALF_EVEN:
                r = fl if 2 * rem < k else (fl + 1 if 2 * rem > k else (fl if fl % 2 == 0 else fl + 1))
            else:
                raise NotImplementedError(rounding)
            return SymDec(r, p)
        if rounding == decimal.ROUND_DOWN:        # towards zero
            r = z3.If(z3.Or(c >= 0, rem == 0), fl, fl + 1)
        elif rounding == decimal.ROUND_UP:        # away from zero
            r = z3.If(z3.And(c >= 0, rem != 0), fl + 1, fl)
        elif rounding == decimal.ROUND_HALF_EVEN:
            r = z3.If(2 * rem < k, fl, z3.If(2 * rem > k, fl + 1, z3.If(fl % 2 == 0, fl, fl + 1)))
        elif rounding == decimal.ROUND_HALF_UP:
            r = z3.If(2 * rem < k, fl, z3.If(2 * rem > k, fl + 1, z3.If(c >= 0, fl + 1, fl)))
        elif rounding == decimal.ROUND_FLOOR:
            r = fl
        elif rounding == decimal.ROUND_CEILING:
            r = z3.If(rem == 0, fl, fl + 1)
        else:
            raise NotImplementedError(rounding)
        return SymDec(r, p)

    def is_finite(self):
        return True

    def is_nan(self):
        return False

    def is_zero(self):
        return not bool(self)

    def __copy__(self):
        return self

    def __deepcopy__(self, memo):
        return self

    def __reduce__(self):
        raise TypeError("SymDec cannot be pickled")

    def __repr__(self):
        return "SymDec(%se%d/%s)" % (self.c, self.x, self.d)

    def __str__(self):
        from .strtok import render_token
        return render_token(self, "sci")

    def __format__(self, spec):
        from .strtok import render_token
        if spec == "f":
            return render_token(self, "plain")
        return render_token(self, "sci" if spec == "" else "fmt:" + spec)

    # ---- helpers for the harness
    def value_in(self, model):
        c = core._model_value(model, self.c) if not isinstance(self.c, int) else self.c
        d = core._model_value(model, self.d) if not isinstance(self.d, int) else self.d
        return Fraction(c) * Fraction(10) ** self.x / Fraction(d)

    def on_grid(self, prec):
        """is the value a multiple of 10**-prec ?  (python bool or SymBool)"""
        if not _is1(self.d):
            raise core.HarnessError("on_grid() of an unquantised quotient")
        if self.x >= -prec:
            return True
        m = 10 ** (-prec - self.x)
        if isinstance(self.c, int):
            return self.c % m == 0
        return SymBool(self.c % m == 0)


def _pow10(k):
    p = 0
    while k % 10 == 0 and k > 1:
        k //= 10
        p += 1
    return p if k == 1 else None


def _inf_arith(sym, inf, swap):
    raise NotImplementedError("arithmetic with infinity")


def _trap(name):
    def f(self, *a, **k):
        ctx = Ctx.cur
        if ctx is None or ctx.mode != "sym":
            raise core.HarnessError("SymDec.%s outside symbolic mode" % name)
        raise core.HarnessError("unsupported Decimal operation on symbolic value: %s" % name)
    f.__name__ = name
    return f


# every Decimal attribute that is not modelled above is trapped (no C method may read the dummy payload)
_MODELLED = set(SymDec.__dict__) | {"__class__", "__new__", "__init__", "__doc__", "__module__", "__slots__",
                                    "__getattribute__", "__setattr__", "__delattr__", "__dir__", "__sizeof__",
                                    "__subclasshook__", "__init_subclass__", "__reduce_ex__", "__getstate__",
                                    "__class_getitem__"}
for _n in dir(Decimal):
    if _n not in _MODELLED and callable(getattr(Decimal, _n, None)):
        setattr(SymDec, _n, _trap(_n))
for _n in ("real", "imag"):
    setattr(SymDec, _n, property(_trap(_n)))


# ------------------------------------------------------------------ dual mode helpers for oracles / stubs
def is_sym(x):
    return isinstance(x, SymDec)


def ite(cond, a, b):
    """if-then-else on Decimal-like values without forking"""
    if not core._is_sym(cond):
        return a if cond else b
    la, lb = lift(a), lift(b)
    na, nb, x, d = _align(la, lb)
    return SymDec(z3.If(core._b(cond), _z(na), _z(nb)), x, d)


def _z(v):
    return z3.IntVal(v) if isinstance(v, int) else v


def smax(*vals):
    """max() that merges instead of forking; identical to builtins.max on ordinary values"""
    if len(vals) == 1:
        vals = tuple(vals[0])
    if not any(isinstance(v, SymDec) for v in vals):
        return max(*vals)
    r = vals[0]
    for v in vals[1:]:
        if isinstance(v, Decimal) and not isinstance(v, SymDec) and not v.is_finite():
            r = v if v > 0 else r
            continue
        if isinstance(r, Decimal) and not isinstance(r, SymDec) and not r.is_finite():
            r = r if r > 0 else v
            continue
        c = v > r
        r = ite(c, v, r)
    return r


def smin(*vals):
    if len(vals) == 1:
        vals = tuple(vals[0])
    if not any(isinstance(v, SymDec) for v in vals):
        return min(*vals)
    r = vals[0]
    for v in vals[1:]:
        if isinstance(v, Decimal) and not isinstance(v, SymDec) and not v.is_finite():
            r = r if v > 0 else v
            continue
        if isinstance(r, Decimal) and not isinstance(r, SymDec) and not r.is_finite():
            r = v if r > 0 else r
            continue
        c = v < r
        r = ite(c, v, r)
    return r


def on_grid(x, prec):
    if isinstance(x, SymDec):
        return x.on_grid(prec)
    x = Decimal(x)
    return x == x.quantize(Decimal(1).scaleb(-prec), rounding=decimal.ROUND_DOWN)


def round_half_even(x, prec):
    return x.quantize(Decimal(1).scaleb(-prec), rounding=decimal.ROUND_HALF_EVEN)


def round_up(x, prec):
    return x.quantize(Decimal(1).scaleb(-prec), rounding=decimal.ROUND_UP)


def trunc(x, prec):
    return x.quantize(Decimal(1).scaleb(-prec), rounding=decimal.ROUND_DOWN)


def D(x):
    """Decimal constructor that lets proxies through"""
    if isinstance(x, SymDec):
        return x
    from .num import SymReal, SymInt
    if isinstance(x, SymInt):
        return SymDec(x.e, 0)
    if isinstance(x, SymReal):
        return x.as_dec()
    return Decimal(x)


class DecimalFactory:
    """Stand-in for the name `Decimal` inside a basana module: Decimal(x) with x a proxy returns the proxy."""
    def __new__(cls, x="0", *a):
        return D(x)

"""SymDec: exact symbolic stand-in for decimal.Decimal.

value = c * 10**x / d   with  c a z3 Int term, x a concrete python int (mirrors Decimal's exponent, so
quantize/precision questions stay structural), d == 1 or a z3 Int term known to be > 0 (only after a
division by a symbolic value).  All of + - * / comparisons abs quantize are exact (no 28 digit context
rounding: inputs are bounded so that the checked code never exceeds 28 digits except in true divisions).

SymDec subclasses Decimal (client code dispatches on isinstance(v, Decimal)); its C level payload is a
signalling NaN so that any C level operation that would read the payload raises instead of silently
computing with a dummy.
"""
from __future__ import annotations

import decimal
from decimal import Decimal
from fractions import Fraction

import z3

from . import core, lin as L
from .core import Ctx, SymBool
from .lin import Lin


def _is1(d):
    return isinstance(d, int) and d == 1


def lift(x):
    """-> (coef: Lin, exponent: int, den: 1 | Lin) or None (non finite) or NotImplemented"""
    if isinstance(x, SymDec):
        return (x.c, x.x, x.d)
    if isinstance(x, bool):
        return NotImplemented
    if isinstance(x, int):
        return (Lin({}, x), 0, 1)
    from .num import SymInt
    if isinstance(x, SymInt):
        return (L.lin(x.e), 0, 1)
    if isinstance(x, Decimal):
        if not x.is_finite():
            return None
        sign, digits, exp = x.as_tuple()
        c = int("".join(map(str, digits)) or "0")
        return (Lin({}, -c if sign else c), exp, 1)
    if isinstance(x, float):
        f = Fraction(x)
        return (Lin({}, f.numerator), 0, 1 if f.denominator == 1 else Lin({}, f.denominator))
    if isinstance(x, Fraction):
        return (Lin({}, x.numerator), 0, 1 if x.denominator == 1 else Lin({}, x.denominator))
    return NotImplemented


def _same_den(da, db):
    if _is1(da) or _is1(db):
        return _is1(da) and _is1(db)
    return da.t == db.t and da.k == db.k


def _align(a, b):
    """numerators na, nb over a common positive denominator d and common exponent x"""
    (ca, xa, da), (cb, xb, db) = a, b
    x = min(xa, xb)
    na = L.scale(ca, 10 ** (xa - x)) if xa != x else ca
    nb = L.scale(cb, 10 ** (xb - x)) if xb != x else cb
    if _is1(da) and _is1(db):
        return na, nb, x, 1
    if _same_den(da, db):
        return na, nb, x, da
    if _is1(da):
        return L.mul(na, db), nb, x, db
    if _is1(db):
        return na, L.mul(nb, da), x, da
    return L.mul(na, db), L.mul(nb, da), x, L.mul(da, db)


_INF_CMP = {"lt": lambda pos: pos, "le": lambda pos: pos, "gt": lambda pos: not pos, "ge": lambda pos: not pos,
            "eq": lambda pos: False, "ne": lambda pos: True}


def _cmp(op):
    def f(self, other):
        if isinstance(other, Decimal) and not isinstance(other, SymDec) and not other.is_finite():
            if other.is_nan():
                raise decimal.InvalidOperation("comparison with NaN")
            return _INF_CMP[op](other > 0)
        o = lift(other)
        if o is NotImplemented:
            return NotImplemented
        a, b, _, _ = _align((self.c, self.x, self.d), o)
        e = L.cmp(op, a, b)
        if isinstance(e, bool):
            return e
        return SymBool(e)
    return f


def fdiv(c, k):
    """floor(c / k) for k > 0 (Lin or int) through a fresh quotient variable; returns a Lin"""
    c, k = L.lin(c), L.lin(k)
    if c.is_const() and k.is_const():
        return Lin({}, c.k // k.k)
    ctx = Ctx.cur
    if k.is_const() and USE_DIV:
        # z3's integer div by a constant (floor for a positive divisor): no fresh variable, and the cached model
        # keeps evaluating conditions that mention the quotient
        return Lin.atom(c.z() / k.k)
    q = L.lin(ctx.fresh("q"))
    kq = L.mul(k, q)
    ctx.add(z3.And(L.cmp("le", kq, c), L.cmp("lt", c, L.add(kq, k))))
    return q


_SNAN = "sNaN"
import os as _os
USE_DIV = _os.environ.get("SYMX_DIV", "1") == "1"


class SymDec(Decimal):
    __slots__ = ("c", "x", "d")

    def __new__(cls, c, x, d=1):
        self = Decimal.__new__(cls, _SNAN)
        self.c = c if isinstance(c, Lin) else L.lin(c)
        self.x = x
        self.d = d if (_is1(d) or isinstance(d, Lin)) else L.lin(d)
        return self

    # ---- comparisons / truth
    __lt__ = _cmp("lt")
    __le__ = _cmp("le")
    __gt__ = _cmp("gt")
    __ge__ = _cmp("ge")
    __eq__ = _cmp("eq")
    __ne__ = _cmp("ne")
    __hash__ = None

    def __bool__(self):
        if self.c.is_const():
            return self.c.k != 0
        return Ctx.cur.branch(L.cmp("ne", self.c, Lin({}, 0)))

    # ---- arithmetic
    def __neg__(self):
        return SymDec(L.neg(self.c), self.x, self.d)

    def __pos__(self):
        return self

    def __abs__(self):
        if self.c.is_const():
            return SymDec(Lin({}, abs(self.c.k)), self.x, self.d)
        return SymDec(L.ite(L.cmp("ge", self.c, Lin({}, 0)), self.c, L.neg(self.c)), self.x, self.d)

    def _bin(self, o, f, swap=False):
        if isinstance(o, Decimal) and not isinstance(o, SymDec) and not o.is_finite():
            return _inf_arith(self, o, swap)
        o = lift(o)
        if o is NotImplemented:
            return NotImplemented
        a, b, x, d = _align((self.c, self.x, self.d), o)
        return SymDec(f(b, a) if swap else f(a, b), x, d)

    def __add__(self, o):
        return self._bin(o, L.add)
    __radd__ = __add__

    def __sub__(self, o):
        return self._bin(o, L.sub)

    def __rsub__(self, o):
        return self._bin(o, L.sub, swap=True)

    def __mul__(self, o):
        o = lift(o)
        if o is NotImplemented or o is None:
            return NotImplemented
        if _is1(o[2]):
            d = self.d
        elif _is1(self.d):
            d = o[2]
        else:
            d = L.mul(self.d, o[2])
        return SymDec(L.mul(self.c, o[0]), self.x + o[1], d)
    __rmul__ = __mul__

    @staticmethod
    def _div(num, den):
        (cn, xn, dn), (cd, xd, dd) = num, den
        Ctx.cur.inexact = True
        if cd.is_const():
            k = cd.k
            if k == 0:
                raise decimal.DivisionByZero()
            sgn = 1 if k > 0 else -1
            n = L.scale(cn, sgn) if _is1(dd) else L.scale(L.mul(cn, dd), sgn)
            k = abs(k)
            if _is1(dn):
                p = _pow10(k)
                if p is not None:
                    # division by a concrete power of ten (x / 100) stays exact with a shifted exponent
                    return SymDec(n, xn - xd - p, 1)
                d = 1 if k == 1 else Lin({}, k)
            else:
                d = L.scale(dn, k)
            return SymDec(n, xn - xd, d)
        ctx = Ctx.cur
        zero = Lin({}, 0)
        pos = ctx.branch(L.cmp("gt", cd, zero))
        if not pos:
            if not ctx.branch(L.cmp("lt", cd, zero)):
                if cn.is_const() and cn.k == 0:
                    raise decimal.InvalidOperation()
                raise decimal.DivisionByZero()
            cd, cn = L.neg(cd), L.neg(cn)
        n = cn if _is1(dd) else L.mul(cn, dd)
        d = cd if _is1(dn) else L.mul(dn, cd)
        return SymDec(n, xn - xd, d)

    def __truediv__(self, o):
        o = lift(o)
        if o is NotImplemented or o is None:
            return NotImplemented
        return SymDec._div((self.c, self.x, self.d), o)

    def __rtruediv__(self, o):
        o = lift(o)
        if o is NotImplemented or o is None:
            return NotImplemented
        return SymDec._div(o, (self.c, self.x, self.d))

    def __pow__(self, o, mod=None):
        if mod is None and (o == 2 or (isinstance(o, Decimal) and not isinstance(o, SymDec) and o == 2)):
            return self * self
        return _trap("__pow__")(self, o)

    def quantize(self, exp, rounding=None, context=None):
        if isinstance(exp, SymDec):
            return _trap("quantize(symbolic exponent)")(self, exp)
        p = Decimal(exp).as_tuple().exponent       # target exponent
        if self.x >= p and _is1(self.d):
            return SymDec(L.scale(self.c, 10 ** (self.x - p)) if self.x != p else self.c, p)
        if self.x >= p:
            c, k = L.scale(self.c, 10 ** (self.x - p)), self.d
        else:
            c, k = self.c, (Lin({}, 10 ** (p - self.x)) if _is1(self.d) else L.scale(self.d, 10 ** (p - self.x)))
        if rounding is None:
            rounding = decimal.getcontext().rounding
        if c.is_const() and k.is_const():
            cc, kk = c.k, k.k
            fl, rem = cc // kk, cc % kk
            neg = cc < 0
            if rounding == decimal.ROUND_DOWN:
                r = fl if (not neg or rem == 0) else fl + 1
            elif rounding == decimal.ROUND_UP:
                r = fl + 1 if (not neg and rem != 0) else fl
            elif rounding == decimal.ROUND_HALF_EVEN:
                r = fl if 2 * rem < kk else (fl + 1 if 2 * rem > kk else (fl if fl % 2 == 0 else fl + 1))
            else:
                raise NotImplementedError(rounding)
            return SymDec(Lin({}, r), p)
        fl = fdiv(c, k)
        rem = L.sub(c, L.mul(k, fl))   # in [0, k)
        zc_, zfl, zrem, zk = c.z(), fl.z(), rem.z(), k.z()
        if rounding == decimal.ROUND_DOWN:        # towards zero
            r = z3.If(z3.Or(zc_ >= 0, zrem == 0), zfl, zfl + 1)
        elif rounding == decimal.ROUND_UP:        # away from zero
            r = z3.If(z3.And(zc_ >= 0, zrem != 0), zfl + 1, zfl)
        elif rounding == decimal.ROUND_HALF_EVEN:
            r = z3.If(2 * zrem < zk, zfl, z3.If(2 * zrem > zk, zfl + 1, z3.If(zfl % 2 == 0, zfl, zfl + 1)))
        elif rounding == decimal.ROUND_HALF_UP:
            r = z3.If(2 * zrem < zk, zfl, z3.If(2 * zrem > zk, zfl + 1, z3.If(zc_ >= 0, zfl + 1, zfl)))
        elif rounding == decimal.ROUND_FLOOR:
            r = zfl
        elif rounding == decimal.ROUND_CEILING:
            r = z3.If(zrem == 0, zfl, zfl + 1)
        else:
            raise NotImplementedError(rounding)
        return SymDec(Lin.atom(r), p)

    def is_finite(self):
        return True

    def is_nan(self):
        return False

    def is_zero(self):
        return not bool(self)

    def __copy__(self):
        return self

    def __deepcopy__(self, memo):
        return self

    def __reduce__(self):
        raise TypeError("SymDec cannot be pickled")

    def __repr__(self):
        return "SymDec(%se%d/%s)" % (self.c.z(), self.x, self.d if _is1(self.d) else self.d.z())

    def __str__(self):
        from .strtok import render_token
        return render_token(self, "sci")

    def __format__(self, spec):
        from .strtok import render_token
        if spec == "f":
            return render_token(self, "plain")
        return render_token(self, "sci" if spec == "" else "fmt:" + spec)

    # ---- helpers for the harness
    def value_in(self, model):
        c = L.value(model, self.c)
        d = 1 if _is1(self.d) else L.value(model, self.d)
        return Fraction(c) * Fraction(10) ** self.x / Fraction(d)

    def is_concrete(self):
        return self.c.is_const() and (_is1(self.d) or self.d.is_const())

    def on_grid(self, prec):
        """is the value a multiple of 10**-prec ?  (python bool or SymBool)"""
        if not _is1(self.d):
            # a quotient: on the grid iff truncating it to the grid changes nothing
            t = self.quantize(Decimal(1).scaleb(-prec), rounding=decimal.ROUND_DOWN)
            return self == t
        if self.x >= -prec:
            return True
        m = 10 ** (-prec - self.x)
        if self.c.is_const():
            return self.c.k % m == 0
        return SymBool(self.c.z() % m == 0)


def _pow10(k):
    p = 0
    while k % 10 == 0 and k > 1:
        k //= 10
        p += 1
    return p if k == 1 else None


def _inf_arith(sym, inf, swap):
    raise NotImplementedError("arithmetic with infinity")


def _trap(name):
    def f(self, *a, **k):
        ctx = Ctx.cur
        if ctx is None or ctx.mode != "sym":
            raise core.HarnessError("SymDec.%s outside symbolic mode" % name)
        raise core.HarnessError("unsupported Decimal operation on symbolic value: %s" % name)
    f.__name__ = name
    return f


# every Decimal attribute that is not modelled above is trapped (no C method may read the dummy payload)
_MODELLED = set(SymDec.__dict__) | {"__class__", "__new__", "__init__", "__doc__", "__module__", "__slots__",
                                    "__getattribute__", "__setattr__", "__delattr__", "__dir__", "__sizeof__",
                                    "__subclasshook__", "__init_subclass__", "__reduce_ex__", "__getstate__",
                                    "__class_getitem__"}
for _n in dir(Decimal):
    if _n not in _MODELLED and callable(getattr(Decimal, _n, None)):
        setattr(SymDec, _n, _trap(_n))
for _n in ("real", "imag"):
    setattr(SymDec, _n, property(_trap(_n)))


# ------------------------------------------------------------------ dual mode helpers for oracles / stubs
def is_sym(x):
    return isinstance(x, SymDec)


def ite(cond, a, b):
    """if-then-else on Decimal-like values without forking"""
    if not core._is_sym(cond):
        return a if cond else b
    la, lb = lift(a), lift(b)
    na, nb, x, d = _align(la, lb)
    return SymDec(L.ite(core._b(cond), na, nb), x, d)


def smax(*vals):
    """max() that merges instead of forking; identical to builtins.max on ordinary values"""
    if len(vals) == 1:
        vals = tuple(vals[0])
    if not any(isinstance(v, SymDec) for v in vals):
        return max(*vals)
    r = vals[0]
    for v in vals[1:]:
        if isinstance(v, Decimal) and not isinstance(v, SymDec) and not v.is_finite():
            r = v if v > 0 else r
            continue
        if isinstance(r, Decimal) and not isinstance(r, SymDec) and not r.is_finite():
            r = r if r > 0 else v
            continue
        c = v > r
        r = ite(c, v, r)
    return r


def smin(*vals):
    if len(vals) == 1:
        vals = tuple(vals[0])
    if not any(isinstance(v, SymDec) for v in vals):
        return min(*vals)
    r = vals[0]
    for v in vals[1:]:
        if isinstance(v, Decimal) and not isinstance(v, SymDec) and not v.is_finite():
            r = r if v > 0 else v
            continue
        if isinstance(r, Decimal) and not isinstance(r, SymDec) and not r.is_finite():
            r = v if r > 0 else r
            continue
        c = v < r
        r = ite(c, v, r)
    return r


def on_grid(x, prec):
    if isinstance(x, SymDec):
        return x.on_grid(prec)
    x = Decimal(x)
    return x == x.quantize(Decimal(1).scaleb(-prec), rounding=decimal.ROUND_DOWN)


def round_half_even(x, prec):
    return x.quantize(Decimal(1).scaleb(-prec), rounding=decimal.ROUND_HALF_EVEN)


def round_up(x, prec):
    return x.quantize(Decimal(1).scaleb(-prec), rounding=decimal.ROUND_UP)


def trunc(x, prec):
    return x.quantize(Decimal(1).scaleb(-prec), rounding=decimal.ROUND_DOWN)


def D(x):
    """Decimal constructor that lets proxies through"""
    if isinstance(x, SymDec):
        return x
    from .strtok import SymStr
    if isinstance(x, SymStr):
        return x.dec            # Decimal("<numeric string>") of a payload cell that stands for a symbolic decimal
    from .num import SymReal, SymInt
    if isinstance(x, SymInt):
        return SymDec(L.lin(x.e), 0)
    if isinstance(x, SymReal):
        return x.as_dec()
    return Decimal(x)


class DecimalFactory:
    """Stand-in for the name `Decimal` inside a basana module: Decimal(x) with x a proxy returns the proxy."""
    def __new__(cls, x="0", *a):
        return D(x)

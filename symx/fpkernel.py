"""fpkernel: binary64 exactness of timestamp kernels `<int> / K` -> datetime.fromtimestamp, decided in QF_LIA.

The direct QF_FP encoding (fp.div, fp.roundToIntegral) did not finish in z3 or cvc5 (10-15 min).  Instead, for each
binade e of the quotient and each binade g of frac*1e6 the two round-to-nearest-even roundings are characterised by
linear integer constraints over the 53 bit significands, modf is exact, and CPython's _PyTime rounding (ROUND_HALF_EVEN
to microseconds, with carry) is modelled from Python/pytime.c.  Every case is first checked satisfiable and its witness
pushed through the real datetime.fromtimestamp (translation validation of this hand-written model).
"""
import ast
import datetime
import math
import time

import z3

UTC = datetime.timezone.utc


def find_kernel(source):
    """returns K if the source contains exactly one true division `<expr> / <float literal K>` with K a power of ten
    (1e3 / 1e6 / 1000.0 ...) feeding the timestamp; None otherwise"""
    import textwrap
    tree = ast.parse(textwrap.dedent(source))
    found = []
    for node in ast.walk(tree):
        if isinstance(node, ast.BinOp) and isinstance(node.op, ast.Div) and isinstance(node.right, ast.Constant) and \
                isinstance(node.right.value, (int, float)):
            found.append(node.right.value)
    bad = [n for n in ast.walk(tree) if isinstance(n, ast.BinOp) and isinstance(n.op, (ast.FloorDiv, ast.Mult, ast.Mod))]
    if len(found) != 1 or bad:
        return None
    k = found[0]
    if k != int(k) or int(k) not in (10 ** 3, 10 ** 6):
        return None
    return int(k)


def _rne(s, num, den, res):
    """res is the integer nearest to num/den (den > 0 constant), ties to even"""
    s.add(2 * (res * den - num) <= den, 2 * (res * den - num) >= -den)
    s.add(z3.Implies(z3.Or(2 * (res * den - num) == den, 2 * (res * den - num) == -den), res % 2 == 0))


def decide(K, lo, hi, timeout_ms=60000):
    t0 = time.time()
    out = dict(cases=0, reachable=0, counterexamples=[], undecided=[], validated=True, solver_s=0.0)
    e_lo = int(math.floor(math.log2(lo / K)))
    e_hi = int(math.floor(math.log2(hi / K)))
    epoch = datetime.datetime(1970, 1, 1, tzinfo=UTC)
    for e in range(e_lo, e_hi + 1):
        S = 2 ** (52 - e)
        for g in list(range(-4, 20)) + ["zero"]:
            s = z3.Solver()
            s.set("timeout", timeout_ms)
            t, m, ip, r, n, j = z3.Ints("t m ip r n j")
            s.add(t >= lo, t <= hi, t >= K * 2 ** e, t < K * 2 ** (e + 1))
            s.add(m >= 2 ** 52, m <= 2 ** 53)
            _rne(s, t * S, K, m)                    # d = m / S = RNE(t / K)
            s.add(r >= 0, r < S, m == ip * S + r)   # modf is exact
            if g == "zero":
                s.add(r == 0)
                jj = z3.IntVal(0)
            else:
                W = 2 ** (52 - g)
                s.add(r * 10 ** 6 >= S * 2 ** g if g >= 0 else r * 10 ** 6 * 2 ** (-g) >= S)
                s.add(r * 10 ** 6 < S * 2 ** (g + 1) if g + 1 >= 0 else r * 10 ** 6 * 2 ** (-(g + 1)) < S)
                s.add(n >= 2 ** 52, n <= 2 ** 53)
                _rne(s, r * 10 ** 6 * W, S, n)      # frac * 1e6 rounded to binary64
                _rne(s, n, W, j)                    # _PyTime_ROUND_HALF_EVEN to an integer
                jj = j
            carry = z3.If(jj >= 10 ** 6, 1, 0)
            total = (ip + carry) * 10 ** 6 + (jj - carry * 10 ** 6)
            q0 = time.time()
            r1 = str(s.check())
            if r1 == "sat":
                out["reachable"] += 1
                mt = s.model().eval(t).as_long()
                dtv = datetime.datetime.fromtimestamp(mt / float(K), tz=UTC)
                real_total = (dtv - epoch) // datetime.timedelta(microseconds=1)
                enc_total = s.model().eval(total, model_completion=True).as_long()
                if real_total != enc_total:
                    out["validated"] = False
                    out["mismatch"] = (mt, real_total, enc_total)
            elif r1 != "unsat":
                out["undecided"].append((e, g, "reach"))
            s.add(total != t * (10 ** 6 // K))
            r2 = str(s.check())
            out["solver_s"] += time.time() - q0
            out["cases"] += 1
            if r2 == "sat":
                mt = s.model().eval(t).as_long()
                dtv = datetime.datetime.fromtimestamp(mt / float(K), tz=UTC)
                real_total = (dtv - epoch) // datetime.timedelta(microseconds=1)
                out["counterexamples"].append(dict(t=mt, decoded_us=real_total, expected_us=mt * (10 ** 6 // K),
                                                   reproduces=real_total != mt * (10 ** 6 // K)))
            elif r2 != "unsat":
                out["undecided"].append((e, g, "claim"))
    out["wall"] = time.time() - t0
    return out

"""SymStr: an opaque token standing for a textual rendering of a SymDec (subclass of str).

kind "sci"   = str(Decimal) / format(d, "")  (General Decimal Arithmetic to-scientific-string)
kind "plain" = format(d, "f")
The token survives dict/argument passing; anything that rebuilds strings in C (urlencode, concatenation)
loses it, which the scenarios detect (the parameter is then not a SymStr any more).
"""
from __future__ import annotations


class SymStr(str):
    def __new__(cls, dec, kind):
        self = super().__new__(cls, "<symdec:%s>" % kind)
        self.dec = dec
        self.kind = kind
        return self

    def __repr__(self):
        return "SymStr(%s,%r)" % (self.kind, self.dec)


def render_token(dec, kind):
    return SymStr(dec, kind)

"""SymInt (python int -> z3 Int) and SymReal (python float treated as a real -> z3 Real)."""
from __future__ import annotations

from fractions import Fraction

import z3

from . import core
from .core import Ctx, SymBool


def _zi(o):
    if isinstance(o, SymInt):
        return o.e
    if isinstance(o, bool):
        return NotImplemented
    if isinstance(o, int):
        return o
    return NotImplemented


def _icmp(op):
    def f(self, o):
        b = _zi(o)
        if b is NotImplemented:
            if isinstance(o, (float, SymReal)):
                return getattr(self.as_real(), "__%s__" % op)(o)
            return NotImplemented
        a = self.e
        return SymBool({"lt": a < b, "le": a <= b, "gt": a > b, "ge": a >= b, "eq": a == b, "ne": a != b}[op])
    return f


class SymInt:
    __slots__ = ("e",)

    def __init__(self, e):
        self.e = e

    __lt__ = _icmp("lt")
    __le__ = _icmp("le")
    __gt__ = _icmp("gt")
    __ge__ = _icmp("ge")
    __eq__ = _icmp("eq")
    __ne__ = _icmp("ne")
    __hash__ = None

    def __bool__(self):
        return Ctx.cur.branch(self.e != 0)

    def _bin(self, o, f, swap=False):
        b = _zi(o)
        if b is NotImplemented:
            return NotImplemented
        return SymInt(f(b, self.e) if swap else f(self.e, b))

    def __add__(self, o):
        return self._bin(o, lambda a, b: a + b)
    __radd__ = __add__

    def __sub__(self, o):
        return self._bin(o, lambda a, b: a - b)

    def __rsub__(self, o):
        return self._bin(o, lambda a, b: a - b, swap=True)

    def __mul__(self, o):
        if isinstance(o, (float, SymReal)):
            return self.as_real() * o
        return self._bin(o, lambda a, b: a * b)
    __rmul__ = __mul__

    def __neg__(self):
        return SymInt(-self.e)

    def __floordiv__(self, o):
        if isinstance(o, int) and o > 0:
            from .dec import fdiv
            return SymInt(fdiv(self.e, o).z())
        return NotImplemented

    def __mod__(self, o):
        if isinstance(o, int) and o > 0:
            return SymInt(self.e % o)
        return NotImplemented

    def __truediv__(self, o):
        return self.as_real() / o

    def __rtruediv__(self, o):
        return o / self.as_real()

    def as_real(self):
        from . import lin as L
        return SymReal(z3.ToReal(self.e), (L.lin(self.e), 1))

    def __index__(self):
        v = Ctx.cur.concretise(self.e, "int(SymInt)")
        return int(v)
    __int__ = __index__

    def __repr__(self):
        return "SymInt(%s)" % (self.e,)


def _zr(o):
    if isinstance(o, SymReal):
        return o.e
    if isinstance(o, SymInt):
        return z3.ToReal(o.e)
    if isinstance(o, bool):
        return NotImplemented
    if isinstance(o, int):
        return z3.RealVal(o)
    if isinstance(o, float):
        f = Fraction(o)
        return z3.RealVal(f.numerator) / z3.RealVal(f.denominator) if f.denominator != 1 else z3.RealVal(f.numerator)
    if isinstance(o, Fraction):
        return z3.RealVal(o.numerator) / z3.RealVal(o.denominator)
    return NotImplemented


def _rcmp(op):
    def f(self, o):
        b = _zr(o)
        if b is NotImplemented:
            return NotImplemented
        a = self.e
        return SymBool({"lt": a < b, "le": a <= b, "gt": a > b, "ge": a >= b, "eq": a == b, "ne": a != b}[op])
    return f


class SymReal:
    """A python float modelled as a mathematical real (binary rounding is outside the claim).

    q = (Lin numerator, int denominator) when the value is known to be that exact ratio of an integer term (elapsed
    microseconds / 1e6 / period): conversion to a decimal then stays linear."""
    __slots__ = ("e", "q")

    def __init__(self, e, q=None):
        self.e = e
        self.q = q

    def _scaled(self, num, den):
        """self * num / den for python ints, keeping the exact ratio"""
        if self.q is None:
            return None
        from . import lin as L
        n, d = self.q
        f = Fraction(num, den) / d
        return (L.scale(n, f.numerator), f.denominator)

    __lt__ = _rcmp("lt")
    __le__ = _rcmp("le")
    __gt__ = _rcmp("gt")
    __ge__ = _rcmp("ge")
    __eq__ = _rcmp("eq")
    __ne__ = _rcmp("ne")
    __hash__ = None

    def __bool__(self):
        return Ctx.cur.branch(self.e != 0)

    def _bin(self, o, f, swap=False):
        b = _zr(o)
        if b is NotImplemented:
            return NotImplemented
        return SymReal(f(b, self.e) if swap else f(self.e, b))

    def __add__(self, o):
        return self._bin(o, lambda a, b: a + b)
    __radd__ = __add__

    def __sub__(self, o):
        return self._bin(o, lambda a, b: a - b)

    def __rsub__(self, o):
        return self._bin(o, lambda a, b: a - b, swap=True)

    def __mul__(self, o):
        r = self._bin(o, lambda a, b: a * b)
        if r is not NotImplemented and isinstance(o, (int, float, Fraction)) and not isinstance(o, bool):
            f = Fraction(o)
            r.q = self._scaled(f.numerator, f.denominator)
        return r
    __rmul__ = __mul__

    def __truediv__(self, o):
        b = _zr(o)
        if b is NotImplemented:
            return NotImplemented
        if isinstance(o, (int, float, Fraction)) and not isinstance(o, bool):
            if o == 0:
                raise ZeroDivisionError("float division by zero")
            f = Fraction(o)
            return SymReal(self.e / b, self._scaled(f.denominator, f.numerator))
        if Ctx.cur.branch(b == 0):
            raise ZeroDivisionError("float division by zero")
        return SymReal(self.e / b)

    def __rtruediv__(self, o):
        b = _zr(o)
        if b is NotImplemented:
            return NotImplemented
        if Ctx.cur.branch(self.e == 0):
            raise ZeroDivisionError("float division by zero")
        return SymReal(b / self.e)

    def __neg__(self):
        return SymReal(-self.e)

    def __pos__(self):
        return self

    def __abs__(self):
        return SymReal(z3.If(self.e >= 0, self.e, -self.e))

    def __float__(self):
        v = Ctx.cur.concretise(self.e, "float(SymReal)")
        return float(v)

    def __int__(self):
        v = Ctx.cur.concretise(self.e, "int(SymReal)")
        return int(v)

    def as_dec(self):
        """exact rational as a SymDec: numerator/denominator split is not available for a Real term, so the
        value is carried as (fresh int n) / (fresh int d) with n == e*d"""
        from .dec import SymDec
        ctx = Ctx.cur
        if self.q is not None:
            from .lin import Lin
            n, d = self.q
            if d < 0:
                from . import lin as L
                n, d = L.neg(n), -d
            return SymDec(n, 0, 1 if d == 1 else Lin({}, d))
        n, d = ctx.fresh("rn"), ctx.fresh("rd")
        ctx.add(z3.And(d > 0, z3.ToReal(n) == self.e * z3.ToReal(d)))
        ctx.inexact = True
        from .lin import Lin
        return SymDec(Lin.atom(n), 0, Lin.atom(d))

    def __repr__(self):
        return "SymReal(%s)" % (self.e,)


def rmax(a, b):
    if not isinstance(a, SymReal) and not isinstance(b, SymReal):
        return max(a, b)
    za, zb = _zr(a), _zr(b)
    return SymReal(z3.If(za >= zb, za, zb))

"""SymDT: datetime proxy (subclass of datetime.datetime, value = z3 Int microseconds since EPOCH, UTC)."""
from __future__ import annotations

import calendar
import datetime

import z3

from . import core, lin as L
from .core import Ctx, SymBool
from .lin import Lin

EPOCH = datetime.datetime(2000, 1, 1, tzinfo=datetime.timezone.utc)
UTC = datetime.timezone.utc


def to_us(d):
    """int for ordinary datetimes, Lin for symbolic ones"""
    if isinstance(d, SymDT):
        return d._e
    if d.tzinfo is None:
        raise TypeError("naive datetime mixed with symbolic datetime")
    delta = d - EPOCH
    return (delta.days * 86400 + delta.seconds) * 10 ** 6 + delta.microseconds


def _lin(x):
    return x if isinstance(x, Lin) else Lin({}, x)


def _cmpb(op, a, b):
    e = L.cmp(op, _lin(a), _lin(b))
    return e if isinstance(e, bool) else SymBool(e)


def from_us(n):
    return EPOCH + datetime.timedelta(microseconds=n)


def td_us(td):
    if isinstance(td, SymTD):
        return td._e
    return (td.days * 86400 + td.seconds) * 10 ** 6 + td.microseconds


def _c(op):
    def f(self, o):
        if not isinstance(o, datetime.datetime):
            return NotImplemented
        return _cmpb(op, self._e, to_us(o))
    return f


def _trap(name):
    def f(self, *a, **k):
        raise core.HarnessError("unsupported datetime operation on symbolic value: %s" % name)
    return f


class SymDT(datetime.datetime):
    """The C level payload is a dummy (2000-01-01 UTC); only comparisons and +/- are symbolic."""

    def __new__(cls, e, tz=None):
        # the tzinfo LABEL is carried by the C level payload; the symbolic value is always the instant (UTC)
        self = super().__new__(cls, 2000, 1, 1, tzinfo=UTC if tz is None else tz)
        self._e = e if isinstance(e, Lin) else L.lin(e)
        return self

    def _label_offset_us(self):
        off = self.tzinfo.utcoffset(None)
        return int(off.total_seconds()) * 10 ** 6 if off is not None else 0

    __lt__ = _c("lt")
    __le__ = _c("le")
    __gt__ = _c("gt")
    __ge__ = _c("ge")
    __eq__ = _c("eq")
    __ne__ = _c("ne")
    __hash__ = None

    def __add__(self, td):
        if not isinstance(td, (datetime.timedelta, SymTD)):
            return NotImplemented
        return SymDT(L.add(self._e, _lin(td_us(td))), self.tzinfo)
    __radd__ = __add__

    def __sub__(self, o):
        if isinstance(o, (datetime.timedelta, SymTD)):
            return SymDT(L.sub(self._e, _lin(td_us(o))), self.tzinfo)
        if isinstance(o, datetime.datetime):
            return SymTD(L.sub(self._e, _lin(to_us(o))))
        return NotImplemented

    def __rsub__(self, o):
        if isinstance(o, datetime.datetime):
            return SymTD(L.sub(_lin(to_us(o)), self._e))
        return NotImplemented

    def __repr__(self):
        return "SymDT(%s)" % (self._e.z(),)
    __str__ = __repr__

    def __format__(self, spec):
        return repr(self)

    def __copy__(self):
        return self

    def __deepcopy__(self, memo):
        return self

    def astimezone(self, tz=None):
        # same instant, another label (tz=None would be the process's local zone: kept as is)
        if tz is None or tz is self.tzinfo:
            return self
        return SymDT(self._e, tz)

    def replace(self, **kw):
        if set(kw) <= {"tzinfo"}:
            tz = kw.get("tzinfo", self.tzinfo)
            if tz is None or tz is self.tzinfo:
                return self
            # the wall-clock reading is kept and relabelled: the instant moves by the difference of the offsets
            new_off = tz.utcoffset(None)
            new_off = int(new_off.total_seconds()) * 10 ** 6 if new_off is not None else 0
            delta = self._label_offset_us() - new_off
            return SymDT(self._e if delta == 0 else L.add(self._e, Lin({}, delta)), tz)
        return _trap("replace")(self)


class SymTimeTuple:
    """what SymDT.utctimetuple() returns: only calendar.timegm() can consume it (whole seconds since 1970, UTC)"""
    def __init__(self, e):
        self.e = e


def _sym_utctimetuple(self):
    return SymTimeTuple(self._e)


_EPOCH_UNIX_US = int((EPOCH - datetime.datetime(1970, 1, 1, tzinfo=UTC)).total_seconds()) * 10 ** 6
_orig_timegm = calendar.timegm


def _timegm(t):
    if isinstance(t, SymTimeTuple):
        from .num import SymInt
        return SymInt((t.e.z() + _EPOCH_UNIX_US) / 1000000)       # z3 integer division: floor for a positive divisor
    return _orig_timegm(t)


calendar.timegm = _timegm
SymDT.utctimetuple = _sym_utctimetuple

for _n in ("timestamp", "strftime", "isoformat", "timetuple", "date", "time", "timetz", "weekday",
           "isoweekday", "isocalendar", "toordinal", "ctime", "__reduce__", "__reduce_ex__"):
    setattr(SymDT, _n, _trap(_n))
for _n in ("year", "month", "day", "hour", "minute", "second", "microsecond"):
    setattr(SymDT, _n, property(_trap(_n)))


class SymTD:
    """timedelta proxy (µs)"""
    __slots__ = ("_e",)

    def __init__(self, e):
        self._e = e if isinstance(e, Lin) else L.lin(e)

    def total_seconds(self):
        from .num import SymReal
        return SymReal(z3.ToReal(self._e.z()) / 1000000, (self._e, 1000000))

    def __bool__(self):
        r = _cmpb("ne", self._e, 0)
        return r if isinstance(r, bool) else bool(r)

    # timedelta's normalised fields (days, 0 <= seconds < 86400, 0 <= microseconds < 10**6) as symbolic ints
    @property
    def days(self):
        from .num import SymInt
        from .dec import fdiv
        return SymInt(fdiv(self._e, 86400 * 10 ** 6).z())

    @property
    def seconds(self):
        from .num import SymInt
        from .dec import fdiv
        day_us = 86400 * 10 ** 6
        rem = L.sub(self._e, L.scale(fdiv(self._e, day_us), day_us))
        return SymInt(fdiv(rem, 10 ** 6).z())

    @property
    def microseconds(self):
        from .num import SymInt
        from .dec import fdiv
        return SymInt(L.sub(self._e, L.scale(fdiv(self._e, 10 ** 6), 10 ** 6)).z())

    def _cmp(op):
        def f(self, o):
            if not isinstance(o, (datetime.timedelta, SymTD)):
                return NotImplemented
            return _cmpb(op, self._e, td_us(o))
        return f
    __lt__ = _cmp("lt")
    __le__ = _cmp("le")
    __gt__ = _cmp("gt")
    __ge__ = _cmp("ge")
    __eq__ = _cmp("eq")
    __ne__ = _cmp("ne")
    __hash__ = None

    def __add__(self, o):
        if isinstance(o, datetime.datetime):
            return SymDT(L.add(_lin(to_us(o)), self._e))
        if isinstance(o, (datetime.timedelta, SymTD)):
            return SymTD(L.add(self._e, _lin(td_us(o))))
        return NotImplemented
    __radd__ = __add__

    def __neg__(self):
        return SymTD(L.neg(self._e))

    def __repr__(self):
        return "SymTD(%s)" % (self._e,)

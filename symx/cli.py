import os
import sys

ROOT = os.path.dirname(os.path.dirname(os.path.abspath(__file__)))
sys.path.insert(0, ROOT)
os.chdir(ROOT)

PROPS = {
    "C01": "scenarios.c01_ledger", "C02": "scenarios.c02_solvency", "C03": "scenarios.c03_lookahead",
    "C04": "scenarios.c04_prices", "C05": "scenarios.c05_lifecycle", "C06": "scenarios.c06_holds",
    "C07": "scenarios.c07_rejected", "C08": "scenarios.c08_liquidity", "C09": "scenarios.c09_fees",
    "C10": "scenarios.c10_margin", "C11": "scenarios.c11_loans", "C12": "scenarios.c12_dispatch",
    "C13": "scenarios.c13_scheduler", "C14": "scenarios.c14_lifecycle", "C15": "scenarios.c15_realtime",
    "C16": "scenarios.c16_signing", "C17": "scenarios.c17_wire", "C18": "scenarios.c18_websockets",
    "C19": "scenarios.c19_bars", "C20": "scenarios.c20_token_bucket",
}


def main(argv):
    if not argv:
        print(__doc__ or "usage: vchk <id> quick|thorough | replay <file> | selftest")
        return 2
    from symx import run
    if argv[0] == "replay":
        return run.replay(argv[1])
    if argv[0] == "selftest":
        from symx import selftest
        return selftest.main()
    pid = argv[0]
    tier = argv[1] if len(argv) > 1 else os.environ.get("VERIF_TIER", "quick")
    seed = int(os.environ.get("VERIF_SEED", "0") or 0)
    try:
        from symx import selftest
        if selftest.main(quiet=True) != 0:
            print("HARNESS-PROBLEM: proxy self-test failed")
            return 3
        return run.run_property(pid, PROPS[pid], tier, seed=seed)
    except SystemExit:
        raise
    except BaseException as e:   # noqa
        import traceback
        traceback.print_exc()
        print("HARNESS-PROBLEM: %r" % (e,))
        return 3


if __name__ == "__main__":
    sys.exit(main(sys.argv[1:]))

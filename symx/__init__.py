from .core import (Abort, Ctx, HarnessError, SymBool, And, Or, Not, Implies, Iff, explore, run_concrete)  # noqa
from .dec import SymDec, ite, smax, smin, on_grid, trunc, round_up, round_half_even, D, DecimalFactory  # noqa
from .num import SymInt, SymReal  # noqa
from .dt import SymDT, SymTD, to_us, from_us, EPOCH  # noqa

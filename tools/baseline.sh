#!/bin/sh
# runs the repository's pinned suite and checks that every test of BASELINE.json's stable_pass list passes
cd /repo && /venv/bin/python -m pytest -ra -q -p no:cacheprovider --timeout=900 --continue-on-collection-errors --junitxml=/tmp/baseline.junit.xml >/tmp/baseline.out 2>&1
/venv/bin/python - <<'PY'
import json, xml.etree.ElementTree as ET
base = set(json.load(open('/root/.vp/BASELINE.json'))['stable_pass'])
ok = set()
for tc in ET.parse('/tmp/baseline.junit.xml').getroot().iter('testcase'):
    if not any(c.tag in ('failure', 'error', 'skipped') for c in tc):
        ok.add(tc.get('classname') + '::' + tc.get('name'))
missing = sorted(base - ok)
print("baseline: %d/%d stable tests pass" % (len(base & ok), len(base)))
for m in missing[:20]:
    print("  MISSING", m)
raise SystemExit(1 if missing else 0)
PY

#!/bin/sh
# confirm_seeded.sh <seeded-dir>: in a scratch worktree of /repo, (1) demo passes without the change, (2) patch applies,
# (3) demo fails with the change, (4) every test of BASELINE.stable_pass still passes with the change. Removes the worktree.
D=$1
W=/tmp/wt/confirm_$(basename $D)
git -C /repo worktree add -q --detach $W HEAD || exit 2
cp $D/demo_test.py $W/demo_test.py
cd $W
/venv/bin/python -m pytest -q -p no:cacheprovider --timeout=300 demo_test.py > $W/demo_without.txt 2>&1; a=$?
git apply $D/patch.diff || { echo "$(basename $D): PATCH DOES NOT APPLY"; cd /; git -C /repo worktree remove --force $W; exit 2; }
/venv/bin/python -m pytest -q -p no:cacheprovider --timeout=300 demo_test.py > $W/demo_with.txt 2>&1; b=$?
/venv/bin/python -m pytest -ra -q -p no:cacheprovider --timeout=900 --continue-on-collection-errors --junitxml=$W/junit.xml tests/ > $W/suite.txt 2>&1
miss=$(/venv/bin/python - "$W/junit.xml" <<'PY'
import json, sys, xml.etree.ElementTree as ET
base = set(json.load(open('/root/.vp/BASELINE.json'))['stable_pass'])
ok = set()
for tc in ET.parse(sys.argv[1]).getroot().iter('testcase'):
    if not any(c.tag in ('failure', 'error', 'skipped') for c in tc):
        ok.add(tc.get('classname') + '::' + tc.get('name'))
print(len(base - ok))
PY
)
res="$(basename $D): demo without change exit=$a ($(tail -1 $W/demo_without.txt)); with change exit=$b ($(tail -1 $W/demo_with.txt)); baseline tests missing with change=$miss"
echo "$res"
echo "$res" > $D/confirm.txt
cd /; git -C /repo worktree remove --force $W

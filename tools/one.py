"""debug helper: run one scenario in-process:  one.py module fn '{"k":2}' [max_paths]"""
import json, sys, time, logging, os
sys.path.insert(0, "/verif")
logging.disable(logging.CRITICAL)
import importlib
from symx import core
mod = importlib.import_module(sys.argv[1])
fn = getattr(mod, sys.argv[2])
kw = json.loads(sys.argv[3]) if len(sys.argv) > 3 else {}
mp = int(sys.argv[4]) if len(sys.argv) > 4 else 100000
t = time.time()
r = core.explore(fn, kwargs=kw, max_paths=mp, validate_every=int(os.environ.get("VAL", "10")), sample_every=50)
print(json.dumps(r["stats"]))
for k in ("confirmed", "unreproduced", "crashes", "undecided", "mismatches", "notes", "incomplete"):
    if r[k]:
        print(k, json.dumps(r[k], default=repr)[:3000])
print("covers", r["covers"])
print("labels", r["labels"])
print("wall", time.time() - t)

#!/bin/sh
# muttest.sh <seeded-dir> <check-id>... : apply the seeded change to a scratch worktree of /repo (never to /repo itself),
# run the quick checks against it (VERIF_REPO), remove the worktree.
D=$1; shift
W=/tmp/wt/mut_$(basename $D)_$$
git -C /repo worktree add -q --detach $W HEAD || exit 2
git -C $W apply "$D/patch.diff" || { echo "$D: patch does not apply"; git -C /repo worktree remove --force $W; exit 2; }
for c in "$@"; do
  out=$(cd ${VERIF_DIR:-/verif} && VERIF_REPO=$W VERIF_OUT=/tmp/wt/out_$$ timeout 1800 ./vchk $c quick 2>&1); code=$?
  echo "MUT $(basename $D) check=$c exit=$code"
  echo "$out" | grep -E "^(VIOLATION|KNOWN-FINDING|HARNESS-PROBLEM|  obligation)" | cut -c1-400 | head -6
done
git -C /repo worktree remove --force $W; rm -rf /tmp/wt/out_$$

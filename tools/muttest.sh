#!/bin/sh
# muttest.sh <seeded-dir> <check-id>... : apply the seeded change to /repo, run the quick checks, undo the change.
# prints one line per check: <seeded> <check> exit=<code> and the VIOLATION lines
D=$1; shift
cd /repo || exit 2
git diff --quiet || { echo "repo dirty"; exit 2; }
git apply "$D/patch.diff" || { echo "$D: patch does not apply"; exit 2; }
for c in "$@"; do
  out=$(cd /verif && timeout 1500 ./vchk $c quick 2>&1); code=$?
  echo "MUT $(basename $D) check=$c exit=$code"
  echo "$out" | grep -E "^(VIOLATION|KNOWN-FINDING|HARNESS-PROBLEM|  obligation)" | cut -c1-400 | head -6
done
git -C /repo checkout -- . 
git -C /repo status --short | head -3

_WIP = "check under construction in this session; will be claimed (or declared out of reach with the reason) before the session ends"
CHECKS = {
    "C20": dict(
        level="model_checking", ref="DESIGN.md §5 C20",
        technique="symbolic execution of the real TokenBucketLimiter.consume with z3 (NRA/LRA): inductive step from an "
                  "arbitrary state + bounded histories against a reference bucket",
        text="z3 discharges, on every feasible path of the real consume(), that waits are >= 0 and equal to a reference "
             "token bucket (refill at rate up to capacity, one token per request, debt/rate wait), from an arbitrary "
             "internal state (one-step induction, all of tokens_per_period, period, state symbolic) and over histories "
             "of k calls with symbolic arrival instants; the window bound capacity + rate*L + 1 and the burst formula "
             "are proved on those histories. Bounded model checking: nothing is claimed beyond the stated k.",
        note="floats modelled as reals; time.time replaced by a symbolic non-decreasing clock; z3 trusted"),
}
NOT_APPLICABLE = {p: _WIP for p in ["C%02d" % i for i in range(1, 21)]}

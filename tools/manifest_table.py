_WIP = "check under construction in this session; will be claimed (or declared out of reach with the reason) before the session ends"
CHECKS = {
    "C20": dict(
        level="model_checking", ref="DESIGN.md §5 C20",
        technique="symbolic execution of the real TokenBucketLimiter.consume with z3 (NRA/LRA): inductive step from an "
                  "arbitrary state + bounded histories against a reference bucket",
        text="z3 discharges, on every feasible path of the real consume(), that waits are >= 0 and equal to a reference "
             "token bucket (refill at rate up to capacity, one token per request, debt/rate wait), from an arbitrary "
             "internal state (one-step induction, all of tokens_per_period, period, state symbolic) and over histories "
             "of k calls with symbolic arrival instants; the window bound capacity + rate*L + 1 and the burst formula "
             "are proved on those histories. Bounded model checking: nothing is claimed beyond the stated k.",
        note="floats modelled as reals; time.time replaced by a symbolic non-decreasing clock; z3 trusted"),
}
NOT_APPLICABLE = {p: _WIP for p in ["C%02d" % i for i in range(1, 21)]}

_HIST_NOTE = ("exact-decimal model (inputs bounded so that Decimal's 28 digit context is not exceeded, true divisions as "
              "exact rationals); order amounts of multi-step histories from a solver-chosen set; uuid4/max/min rebinding; "
              "z3 trusted; counterexamples are replayed on the unmodified code with ordinary Decimals")
_HIST_TECH = ("symbolic execution of the real Exchange/OrderManager/AccountBalances/LoanManager code on z3-backed exact "
              "decimal proxies over bounded operation histories; obligations discharged per path by z3 (LIA)")


def _hist(text):
    return dict(level="model_checking", ref="DESIGN.md §5", technique=_HIST_TECH, text=text, note=_HIST_NOTE)


CHECKS.update({
    "C01": _hist("For every value of the symbolic balances, prices, OHLCV within the stated plans (one or two orders of "
                 "every class, up to two bars, cancels, margin loans with auto-borrow/auto-repay) z3 discharges, after "
                 "every API call and every bar, total == initial + signed fills - fees - paid interest per symbol, with "
                 "fills/fees/interest read back through get_orders()/get_loans(). Bounded: nothing is claimed for "
                 "deeper histories."),
    "C02": _hist("Same bounded histories; obligations available >= 0, hold >= 0, borrowed >= 0, total = a + h - b and "
                 "borrowed == principal of open loans after every step, for all symbolic inputs; overdrawing fills / "
                 "repayments would show up as a satisfiable negative balance."),
    "C05": _hist("Same bounded histories with an order-event subscriber: monotone fills, filled <= amount, closed iff "
                 "completely filled / cancelled / fill-or-kill, closed orders frozen, cancel of a closed order fails, "
                 "every listing/filter exact, exactly one event per acceptance / fill / closure in time order whose "
                 "last equals the order state; plus an inductive step over the open-order container re-indexing."),
    "C06": _hist("Same bounded histories against an independent reservation model: acceptance reserves exactly the "
                 "reservation, holds equal the sum of remaining reservations of open orders after every step, nothing "
                 "on hold when no order is open, hold <= balance, and (without borrowing) a request is accepted iff "
                 "available funds cover its reservation - the solver covers the exact boundary because balances are "
                 "symbolic."),
    "C07": _hist("Every API call of the bounded histories is wrapped in a snapshot; on every path where the call raises "
                 "z3 must show balances, holds, borrowed amounts, open orders (and their state) and open loans "
                 "unchanged. Rejections reached: insufficient funds, margin rule, NoLoans, second loan failing with "
                 "rollback, repay of closed loan, cancel of closed order."),
    "C08": _hist("Same bounded histories incl. VolumeShareImpact with solver-chosen volumes (0, off-grid share): base "
                 "filled per bar <= volume share, fill-or-kill orders needing more than what is left get nothing, every "
                 "filled base/quote/fee and every reported available/hold/borrowed is a multiple of the precision."),
})
_DISP_NOTE = "real asyncio; event/job instants as z3 integers (microseconds); logging disabled; z3 trusted; replayed concretely"
CHECKS.update({
    "C03": dict(level="model_checking", ref="DESIGN.md §5 C03",
                technique="symbolic execution of the whole stack (Exchange + BacktestingDispatcher on asyncio) with symbolic "
                          "bar timestamps and max_concurrent; 2-safety by self-composition against max_concurrent=50",
                text="For every max_concurrent in 1..4, every relative order/ties of the bar timestamps of 1-3 pairs x 2 "
                     "bars, 3 registration orders and 0-2 suspension points, z3 shows every fill's timestamp is later "
                     "than the simulated time its order was submitted at; for non-suspending handlers the fill history, "
                     "final orders and balances equal those of the same run with max_concurrent=50 and of a repeated run.",
                note=_DISP_NOTE + "; hash-seed clause outside the claim"),
    "C12": dict(level="model_checking", ref="DESIGN.md §5 C12",
                technique="symbolic execution of the real BacktestingDispatcher on asyncio with symbolic event timestamps and "
                          "max_concurrent; trace obligations discharged by z3",
                text="All weak orderings of the timestamps of 2x2, 3x2, 2x3 sources x events (plus a derived source), "
                     "max_concurrent 1..3, 6 handler suspension/raise profiles: exactly-once delivery per subscribed handler, "
                     "clock == event time in handlers, stage order pre -> handlers in subscription order -> post, global "
                     "non-decreasing time order, no overlap of events with different times, monotone clock.",
                note=_DISP_NOTE),
    "C13": dict(level="model_checking", ref="DESIGN.md §5 C13",
                technique="symbolic execution of the real BacktestingDispatcher scheduler with symbolic job/event timestamps, "
                          "solver-chosen insertion order; trace obligations discharged by z3",
                text="2-3 jobs with symbolic times (before, between, equal to, after event times), every insertion order, "
                     "jobs scheduled from handlers and from jobs, a raising job, max_concurrent 1..2: each job runs exactly "
                     "once with now >= when, in time order, after earlier events and before later ones.",
                note=_DISP_NOTE),
    "C14": dict(level="fault_enumeration", ref="DESIGN.md §5 C14",
                technique="solver-enumerated fault scripts (failing phase x producer x ending x handler duration, symbolic "
                          "max_concurrent) executed on the real dispatchers on a virtual-time asyncio loop",
                text="Every feasible fault script within the bounds runs the real dispatcher code: init-before-main, "
                     "finalize exactly once, run() returns / raises the producer's error / CancelledError and never an "
                     "internal error, prompt end, events+jobs in flight <= max_concurrent (z3 over symbolic "
                     "max_concurrent), fault isolation, log record factory restored.",
                note="one fault per run; virtual clock; " + _DISP_NOTE),
    "C15": dict(level="model_checking", ref="DESIGN.md §5 C15",
                technique="symbolic execution of the real RealtimeDispatcher on a virtual-time loop with symbolic event/job "
                          "instants relative to the clock",
                text="Three symbolic instants (events of one or two sources and a job) anywhere in a 90 ms window around "
                     "the start, 30 loop iterations: nothing starts before its time, every due event/job is dispatched, "
                     "per-source order, out-of-order events dropped and reported (and only those), idle handlers only "
                     "when nothing is being handled.",
                note="virtual clock substituted for utc_now and the loop clock; " + _DISP_NOTE),
})
for _p in CHECKS:
    NOT_APPLICABLE.pop(_p, None)

CHECKS.update({
    "C04": _hist("One accepted order of every class with symbolic amount and prices (infinite liquidity) or symbolic "
                 "prices and solver-chosen amount/volume (VolumeShareImpact), 2 bars with symbolic OHLC: per fill z3 "
                 "discharges limit bound, range-reaches-limit, stop-before-trade, never better than the bar's extreme, "
                 "market/stop inside the range and not better than open/stop; completeness clause with ample funds "
                 "under infinite liquidity. Products of two symbolic values are decided by z3's NIA within the stated "
                 "magnitude bounds; unknown would be exit 3."),
    "C09": _hist("Unit level: the real Percentage.calculate_fees + _round_fees + add_fill pipeline over k <= 3 fills "
                 "with symbolic quote amounts and minimum fee, percentage from a solver-chosen set: total fee == "
                 "roundup(max(pct x total quote, min)) after every fill, quote symbol only, never negative, never "
                 "refunded. Integration: the same identity on OrderInfo through the exchange with partial fills under "
                 "VolumeShareImpact, and fees == {} under NoFee."),
    "C10": _hist("create_loan and auto-borrow orders from arbitrary symbolic account states (incl. empty / zero "
                 "equity, optional earlier loan), 2 priced pairs with solver-chosen closes, margin requirement from "
                 "{0, .25, .5, 1, 2}: on every path where the loan is granted z3 shows equity_after >= requirement x "
                 "value borrowed (independent valuation); NoLoans: every borrow path fails."),
    "C11": _hist("One loan with symbolic principal / minimum interest / balance / elapsed seconds (<= 10 y), same and "
                 "different interest symbol, three period settings: outstanding interest equals the reference formula "
                 "(exact rational elapsed/period), >= 0 and >= minimum, repay debits exactly principal + interest, "
                 "closes, records paid interest; closed / unknown loans cannot be repaid; refused repay changes nothing "
                 "and happens only when funds are short; auto-repay order with 2 open loans: greedy largest-first rule "
                 "replayed on symbolic balances."),
    "C16": dict(level="model_checking", ref="DESIGN.md §5 C16, §10",
                technique="real client code executed with recording session/hmac stubs; wire produced by the real yarl / "
                          "aiohttp.FormData code; string arguments carry a solver-chosen ASCII character, decimals symbolic",
                text="Every public coroutine of the three Binance account clients and every authenticated Bitstamp "
                     "method (introspected): the message handed to hmac.new equals the transmitted query string without "
                     "the signature followed by the transmitted body (Binance) / the v2 message rebuilt from the "
                     "transmitted request (Bitstamp) for each of the 95 printable ASCII characters at the free position "
                     "of each string argument (solver-enumerated), key header present, timestamp == round(clock x 1000) "
                     "for three boundary clocks, two requests get different nonces; extra keyword arguments incl. "
                     "decimals in exponent notation.",
                note="wire = what yarl/FormData produce in pure-python mode, not socket bytes; HMAC-SHA256 and uuid4 "
                     "uniqueness trusted; one free character per value"),
    "C17": dict(level="model_checking", ref="DESIGN.md §5 C17, §4",
                technique="symbolic decimals (z3 Int coefficient, solver-chosen exponent) through the real order entry "
                          "points to a recording session; rendering decided from the to-scientific-string rule; timestamp "
                          "kernels over the reals and per-binade integer encoding of binary64 (fpkernel)",
                text="Every order entry point of binance spot / cross / isolated accounts and of bitstamp, both sides: "
                     "for every coefficient in [1,1e16) and every exponent -14..+4 each decimal parameter arrives as a "
                     "plain fixed-point string of the same value, unset options absent, documented endpoint / side / "
                     "symbol / type; the same entry points with 13 concrete digit shapes x 19 exponents so that real "
                     "strings reach the wire and are compared exactly; binance Trade / OrderInfo / Balance and bitstamp "
                     "OrderStatus / OrderInfo / Balance wrappers decoded from payloads with symbolic numeric cells "
                     "(fees = per-asset sums); ms and us timestamp kernels exact over 2010..2100 (reals: symbolic integer; "
                     "binary64: 50 binade cases each, all unsat, every case's witness validated against "
                     "datetime.fromtimestamp).",
                note="str(Decimal) contract = General Decimal Arithmetic to-scientific-string; wrapper decoding of "
                     "decimals (Decimal(str)) is exact by construction and only the timestamp kernels are encoded"),
    "C18": dict(level="fault_enumeration", ref="DESIGN.md §5 C18",
                technique="solver-enumerated fault scripts executed through the real websocket clients on a virtual-time "
                          "loop against a fake socket; obligations over the observed frame trace",
                text="11 server/client behaviours x 2+1 steps x 3 clients (4000 scripts): every connection that becomes "
                     "quiescent carries a SUBSCRIBE for every registered channel, a listen key expiry delivered on a "
                     "live connection is followed by a re-SUBSCRIBE on that connection, channels registered while "
                     "connected get subscribed, messages are routed only to their channel's source, keep-alives keep "
                     "coming, connection attempts respect the back-off, main() never dies.",
                note="fidelity of the fake socket / session to aiohttp is assumed; every path = one script"),
    "C19": dict(level="model_checking", ref="DESIGN.md §5 C19",
                technique="symbolic execution of Bar, the CSV RowParsers, load_sort_and_yield and "
                          "RealTimeTradesToBar.main() with symbolic decimals and microsecond trade timestamps",
                text="Bar() refuses exactly the inconsistent OHLC; common / Yahoo row parsers yield one event per "
                     "non-zero-volume row with the row's values at start + period (sanitize / adjust variants); "
                     "sorting yields a non-decreasing permutation; for 3 trades with symbolic instants anywhere in 3 "
                     "windows (durations 1/60/3600 s, 3 start offsets) every trade lands in exactly one bar whose "
                     "O/H/L/C/V are first/max/min/last/sum and bars come out in time order.",
                note="file encodings / BOM detection are outside the claim (C level I/O); zero-latency in-order feed"),
})
for _p in CHECKS:
    NOT_APPLICABLE.pop(_p, None)

#!/bin/sh
# Builds /verif/.venv: an overlay on /venv (the repository's own interpreter and packages) plus
# z3-solver, cvc5 and crosshair-tool from the offline wheelhouse.  Idempotent; no network.
set -e
V="$(cd "$(dirname "$0")/.." && pwd)/.venv"
if [ -x "$V/bin/python" ] && "$V/bin/python" -c "import z3, basana" >/dev/null 2>&1; then
    exit 0
fi
rm -rf "$V"
/venv/bin/python -m venv "$V"
SP=$("$V/bin/python" -c "import sysconfig; print(sysconfig.get_paths()['purelib'])")
printf "import site; site.addsitedir('/venv/lib/python3.12/site-packages')\n" > "$SP/_base.pth"
printf "/repo\n" > "$SP/_repo.pth"
PIP_NO_INDEX=1 "$V/bin/python" -m pip install -q --no-index --find-links /opt/veriftools/wheels z3-solver cvc5 crosshair-tool >/dev/null 2>&1 \
  || PIP_NO_INDEX=1 "$V/bin/python" -m pip install --no-index --find-links /opt/veriftools/wheels z3-solver cvc5 crosshair-tool
"$V/bin/python" -c "import z3, basana; print('setup ok: z3', z3.get_version_string())"

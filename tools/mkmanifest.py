"""Regenerates MANIFEST.json from the table below (kept in one place so that it is always schema-valid)."""
import json, os, sys
ROOT = os.path.dirname(os.path.dirname(os.path.abspath(__file__)))
sys.path.insert(0, ROOT)
from tools.manifest_table import CHECKS, NOT_APPLICABLE  # noqa

props = [json.loads(l)["id"] for l in open(os.path.join(ROOT, "properties.jsonl"))]
checks = []
for pid in props:
    if pid not in CHECKS:
        continue
    c = CHECKS[pid]
    checks.append(dict(
        property_id=pid, quick_cmd="./vchk %s quick" % pid, thorough_cmd="./vchk %s thorough" % pid,
        evidence_file="evidence/%s.json" % pid, replay_cmd_template="./vchk replay {path}", engine=c.get("engine", "symx"),
        level_claimed=dict(category=c["level"], text=c["text"], design_ref=c["ref"]),
        level_note=c["note"], technique=c["technique"]))
na = [dict(property_id=p, reason=NOT_APPLICABLE[p]) for p in props if p not in CHECKS]
missing = [p for p in props if p not in CHECKS and p not in NOT_APPLICABLE]
assert not missing, missing
m = dict(
    version=1, setup_cmd="./vchk setup",
    hooks=dict(guard="BASANA_VERIF", enable="no source hooks: every substitution (clocks, uuid, sessions, max/min) is a "
               "module-attribute rebinding done by the harness process; vchk exports BASANA_VERIF=1 for uniformity",
               baseline_off_cmd="cd /repo && /venv/bin/python -m pytest -ra -q -p no:cacheprovider --timeout=900 "
               "--continue-on-collection-errors", source_commits=[], add_only=True),
    engines=[
        dict(name="symx", path="symx/", serves_properties=sorted(p for p in CHECKS),
             kind_free_text="own symbolic executor: real basana modules run on z3-backed proxy values (exact decimals, "
             "ints, reals, datetimes), path exploration by re-execution, obligations discharged by z3 5.1, "
             "counterexamples replayed on the unmodified code with ordinary values"),
    ],
    checks=checks, not_applicable=na,
    notes="Solver-based checking of the real code; see DESIGN.md. Exit 3 = harness problem (undecided obligation, "
          "unreachable cover point, non-reproducing counterexample), never accompanied by a VIOLATION line.")
json.dump(m, open(os.path.join(ROOT, "MANIFEST.json"), "w"), indent=1)
try:
    import jsonschema
except ImportError:
    jsonschema = None
if jsonschema: jsonschema.validate(m, json.load(open("/root/.vp/MANIFEST.schema.json")))
print("MANIFEST.json ok: %d checks, %d not_applicable" % (len(checks), len(na)))
